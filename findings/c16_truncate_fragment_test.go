package logstream_test

// Demonstration for the C16 defect repaired by the "fix:" commit on
// LineReader.Finish: an unterminated fragment flushed when a truncation is
// detected was delivered again, glued to the next line of the new contents.
// Place in internal/tailer/logstream/ and run
//   go test -vet=off -count=1 -run TestVerifC16TruncateFragment ./internal/tailer/logstream/

import (
	"context"
	"path/filepath"
	"sync"
	"testing"

	"github.com/google/mtail/internal/logline"
	"github.com/google/mtail/internal/tailer/logstream"
	"github.com/google/mtail/internal/testutil"
	"github.com/google/mtail/internal/waker"
)

func TestVerifC16TruncateFragment(t *testing.T) {
	var wg sync.WaitGroup
	tmpDir := testutil.TestTempDir(t)
	name := filepath.Join(tmpDir, "log")
	f := testutil.OpenLogFile(t, name)
	defer f.Close()
	ctx, cancel := context.WithCancel(context.Background())
	waker, awaken := waker.NewTest(ctx, 1, "stream")
	fs, err := logstream.New(ctx, &wg, waker, name, logstream.OneShotDisabled)
	defer cancel()
	testutil.FatalIfErr(t, err)
	expected := []*logline.LogLine{
		{Context: context.TODO(), Filename: name, Line: "1"},
		{Context: context.TODO(), Filename: name, Line: "ab"},
		{Context: context.TODO(), Filename: name, Line: "3"},
	}
	checkLineDiff := testutil.ExpectLinesReceivedNoDiff(t, expected, fs.Lines())
	awaken(1, 1)
	testutil.WriteString(t, f, "1\nab")
	awaken(1, 1)
	testutil.FatalIfErr(t, f.Close())
	awaken(1, 1)
	f = testutil.OpenLogFile(t, name) // truncates
	defer f.Close()
	awaken(1, 1) // truncation observed: fragment "ab" flushed
	testutil.WriteString(t, f, "3\n")
	awaken(1, 1)
	cancel()
	wg.Wait()
	checkLineDiff()
}
