package exporter

// Demonstration for the C12 defects repaired by the "fix:" commit on
// Collect / writeSocketMetrics: a label value the Prometheus client library
// refuses (invalid UTF-8), or a push connection that fails, left the metric
// read-locked for ever and the EmitLabelSets goroutine blocked, so the next
// update of that metric (a VM processing a line) hung.
// Place in internal/exporter/ and run
//   go test -vet=off -count=1 -run TestVerifC12 ./internal/exporter/

import (
	"errors"
	"testing"
	"time"

	"github.com/google/mtail/internal/metrics"
	"github.com/google/mtail/internal/metrics/datum"
	"github.com/prometheus/client_golang/prometheus"
)

type verifFailingConn struct{}

func (verifFailingConn) Write([]byte) (int, error) { return 0, errors.New("connection reset") }

func verifUpdateCompletes(t *testing.T, m *metrics.Metric) {
	t.Helper()
	done := make(chan struct{})
	go func() {
		d, _ := m.GetDatum("c")
		datum.IncIntBy(d, 1, time.Now())
		close(done)
	}()
	select {
	case <-done:
	case <-time.After(2 * time.Second):
		t.Fatal("metric still locked after the export attempt: update blocked")
	}
}

func TestVerifC12PrometheusRefusedLabel(t *testing.T) {
	s := metrics.NewStore()
	m := metrics.NewMetric("foo", "prog", metrics.Counter, metrics.Int, "k")
	for _, l := range []string{"a", "\xff", "b"} {
		d, _ := m.GetDatum(l)
		datum.SetInt(d, 1, time.Now())
	}
	if err := s.Add(m); err != nil {
		t.Fatal(err)
	}
	e := &Exporter{store: s}
	c := make(chan prometheus.Metric, 16)
	e.Collect(c)
	if len(c) != 2 {
		t.Errorf("want the 2 representable label sets exported, got %d", len(c))
	}
	verifUpdateCompletes(t, m)
}

func TestVerifC12PushWriteError(t *testing.T) {
	s := metrics.NewStore()
	m := metrics.NewMetric("foo", "prog", metrics.Counter, metrics.Int, "k")
	for _, l := range []string{"a", "b"} {
		d, _ := m.GetDatum(l)
		datum.SetInt(d, 1, time.Now())
	}
	if err := s.Add(m); err != nil {
		t.Fatal(err)
	}
	e := &Exporter{store: s}
	if err := e.writeSocketMetrics(verifFailingConn{}, metricToGraphite, graphiteExportTotal, graphiteExportSuccess); err == nil {
		t.Error("want a write error")
	}
	verifUpdateCompletes(t, m)
}
