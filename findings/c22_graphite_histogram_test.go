package exporter

// Demonstration for the C22 defect repaired by the "fix:" commit on
// metricToGraphite: the bucket and count lines of a histogram label set were
// taken from the metric's FIRST label set.
// Place in internal/exporter/ and run
//   go test -vet=off -count=1 -run TestVerifC22GraphiteHistogram ./internal/exporter/

import (
	"math"
	"strings"
	"testing"
	"time"

	"github.com/google/mtail/internal/metrics"
	"github.com/google/mtail/internal/metrics/datum"
)

func TestVerifC22GraphiteHistogram(t *testing.T) {
	m := metrics.NewMetric("h", "prog", metrics.Histogram, metrics.Buckets, "k")
	m.Buckets = []datum.Range{{0, 1}, {1, math.Inf(1)}}
	a, _ := m.GetDatum("a")
	b, _ := m.GetDatum("b")
	datum.Observe(a, 0.5, time.Unix(1, 0))
	for i := 0; i < 3; i++ {
		datum.Observe(b, 5, time.Unix(2, 0))
	}
	c := make(chan *metrics.LabelSet)
	go m.EmitLabelSets(c)
	var sets []*metrics.LabelSet
	for ls := range c {
		sets = append(sets, ls)
	}
	out := metricToGraphite("host", m, sets[1], 0)
	if !strings.Contains(out, "prog.h.k.b.count 3 ") {
		t.Errorf("label set b has 3 observations, graphite output says:\n%s", out)
	}
	if !strings.Contains(out, "prog.h.k.b.bin_inf 3 ") {
		t.Errorf("label set b has 3 observations in the +Inf bucket, graphite output says:\n%s", out)
	}
}
