#!/bin/sh
# seed_matrix.sh <seed dir name> <check id> [tier]: runs a check against a
# scratch worktree of /repo HEAD with the seeded change applied (VERIF_REPO),
# evidence and replay files redirected (VERIF_OUT); /repo itself is untouched.
SEED=$1; ID=$2; TIER=${3:-quick}
WT=/tmp/seedmx-$SEED-$ID
OUT=/tmp/seedmx-out-$SEED-$ID
git -C /repo worktree remove --force $WT >/dev/null 2>&1
git -C /repo worktree add --detach $WT HEAD >/dev/null 2>&1 || { echo "worktree failed"; exit 2; }
git -C $WT apply /verif/seeded/$SEED/patch.diff || { echo "SEED $SEED: patch does not apply"; git -C /repo worktree remove --force $WT; exit 2; }
mkdir -p $OUT
cd /verif
VERIF_REPO=$WT VERIF_OUT=$OUT ./verif check $ID --tier $TIER > $OUT/log 2>&1; RC=$?
git -C /repo worktree remove --force $WT >/dev/null 2>&1
grep -E "VIOLATION|KNOWN-FINDING|INCONCLUSIVE|held on" $OUT/log | head -6
echo "SEED $SEED CHECK $ID exit=$RC"
rm -rf $OUT
