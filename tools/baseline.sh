#!/bin/sh
# Runs mtail's own test suite with the verif guard OFF (no build tags, no
# overlays) and compares the result with /root/.vp/BASELINE.json: exit 0 iff
# every test in stable_pass passes.
export GOFLAGS=-mod=mod GOPROXY=off GOSUMDB=off GOTOOLCHAIN=local
REPO=${VERIF_REPO:-/repo}
OUT=$(mktemp /tmp/verif-baseline.XXXXXX.json)
(cd "$REPO" && go test -json -vet=off -count=1 -timeout 25m ./... > "$OUT" 2>/dev/null)
python3 - "$OUT" <<'PY'
import json, sys
passed, failed = set(), set()
for line in open(sys.argv[1], errors="replace"):
    line = line.strip()
    if not line.startswith("{"): continue
    try: ev = json.loads(line)
    except Exception: continue
    a, pkg, t = ev.get("Action"), ev.get("Package", ""), ev.get("Test")
    if t is None or a not in ("pass", "fail"): continue
    (passed if a == "pass" else failed).add(pkg + "::" + t)
passed -= failed
base = json.load(open("/root/.vp/BASELINE.json"))
stable = set(base["stable_pass"])
missing = sorted(stable - passed)
print("stable_pass=%d passed_now=%d missing=%d" % (len(stable), len(passed & stable), len(missing)))
for m in missing[:20]: print("NOT PASSING:", m)
sys.exit(1 if missing else 0)
PY
rc=$?
rm -f "$OUT"
exit $rc
