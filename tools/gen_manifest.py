#!/usr/bin/env python3
"""Regenerates /verif/MANIFEST.json from the tables below (one place to edit)."""
import json

TECH = "SMT-based bounded symbolic execution of the real Go code (own go/ssa executor + z3), counterexamples replayed natively"

CHECKS = {
 "C08": dict(level="model_checking", ref="DESIGN.md 4 C08",
  text="bounded symbolic execution of the real buildLabelValueKey/GetDatum/FindLabelValueOrNil/RemoveDatum/ExpireDatum with all label bytes symbolic; the solver decides injectivity for every byte assignment within the stated arity/length bounds, plus a prefix-code lemma from which all arities follow by induction; and one operation on a tuple with a second operation on an arbitrary tuple let in at every point at which the first releases the metric's lock (the C09 interference job)",
  note="bounds: arity<=2, labels<=2..3 bytes (quick); arity<=4, labels<=5 bytes (thorough). strings.ReplaceAll/Builder are engine models validated by native replay of sampled paths"),
 "C09": dict(level="model_checking", ref="DESIGN.md 4 C09",
  text="bounded model checking of every sequence of <=3 (thorough 4) metric operations from the empty metric with symbolic label bytes and expiries, against an association-list oracle; slice/index agreement, datum identity, order, expiry and EmitLabelSets output asserted after every step; plus an interference job: operation A on a populated metric with operation B run to completion at a solver-chosen lock-release point of A, results and final state equal to A;B or B;A",
  note="bounds: arity 0..2, labels 0..1 bytes (2 thorough), 2-4 operations, value types Int/String/Buckets (all four thorough); EmitLabelSets runs under the engine's deterministic scheduler"),
 "C10": dict(level="model_checking", ref="DESIGN.md 4 C10",
  text="one Store.Gc pass from an arbitrary metric state: 0..3 (thorough 4) data with fully symbolic int64 timestamps and expiries, symbolic limit and clock; the solver shows the surviving set is always explainable as oldest-first limit enforcement followed by the exact expiry rule",
  note="time.Time/Now/Sub/Before/Unix are engine models (exact nanosecond arithmetic, saturating Sub); timestamps after 1970; one metric over its limit per store"),
 "C15": dict(level="model_checking", ref="DESIGN.md 4 C15",
  text="bounded model checking of LineReader.ReadAndSend/send/Finish: every byte string up to 4 (thorough 6) bytes, every chunking by an adversarial io.Reader, every buffer size 1..3 (thorough 6), compared line by line with a split specification; also log_lines_total (C25a)",
  note="bytes.IndexByte and expvar are engine models; read errors other than EOF outside the claim"),
 "C21": dict(level="model_checking", ref="DESIGN.md 4 C21",
  text="the real codegen builds the histogram metric from a declaration with 2..3 (thorough 4) symbolic float64 boundaries; 2 (thorough 4) arbitrary float64 observations incl. NaN/Inf go through the real datum code; bucket choice, count, sum, exported bounds and cumulative map are asserted over SMT floating point",
  note="SMT FloatingPoint(11,53) RNE; declaration given as ast.VarDecl; one known finding listed (first boundary <= 0 has no bucket)"),
}

CHECKS.update({
 "C06": dict(level="model_checking", ref="DESIGN.md 4 C06",
  text="Store.Add as one inductive step from an arbitrary valid store (two metrics chosen from name/program/kind/type/source/keys alphabets, symbolic values and expiries): metrics of other programs keep identity and data, no datum is shared across programs, refusal iff kind conflict and then nothing changes, lookups never cross programs",
  note="pre-state constructed directly under the representation invariant (one kind per name, one metric per name and program); per-program VM/channel isolation in CompileAndRun is by construction and outside the solver question"),
 "C12": dict(level="model_checking", ref="DESIGN.md 4 C12",
  text="fault-point bounded model checking of Collect, writeSocketMetrics, HandleVarz and HandleGraphite on the real store/metric/emitter code: every subset of refused Prometheus constructor calls, a write failure at any write, cancellation before or at any write; afterwards every metric lock is free, no interpreted goroutine is left blocked, and a further update completes; a writer (label-set creation / removal on the exported metric) is additionally queued at each export point - constructor call, write, and right after each metric read-lock - so a re-entrant read lock behind a waiting writer shows as a blocked goroutine",
  note="bounds: quick 1 metric x <=2 label sets; thorough 1 metric x <=3 label sets and 2 metrics x <=1 label set; lock and goroutine state read from the engine's lock/goroutine tables; one deterministic schedule of the emitter goroutine; client-library constructors are recording stubs that refuse what client_golang refuses (invalid/duplicate label name, non-UTF-8 value, ...) and additionally any solver-chosen call; push connection and ResponseWriter are fault-injecting harness types (natively: fault-injecting wrappers around the real constructors)"),
 "C13": dict(level="model_checking", ref="DESIGN.md 4 C13",
  text="the real Collect on a symbolic store (any kind/type, symbolic int64/float64 values incl. NaN/Inf, symbolic label bytes and timestamps, prog label and timestamps on/off): the recorded constructor calls are matched one-to-one with the store's label sets - name, label names/values, value as float64, value type, timestamp iff enabled, histogram cumulative counts; label sets the client library refuses (modelled: the harness key is either a valid label name or `key-a`, label bytes may be non-UTF-8) or that the solver refuses are skipped and exactly all others are emitted",
  note="claim is to the client-library boundary (arguments of NewConstMetric/NewConstHistogram/NewMetricWithTimestamp); expfmt text rendering and registry checks outside; quick: 1 metric x <=2 label sets; thorough: that plus 2 metrics x <=1 label set"),
 "C14": dict(level="model_checking", ref="DESIGN.md 4 C14",
  text="store part: Store.Add(m') for a re-declared metric from an arbitrary valid store - kept declaration keeps datum objects and pending expiry, changed keys drop data, a refused Add leaves the store unchanged, the old metric never stays next to the new one (one known finding listed: type/source change leaves a duplicate); loader part: every history of 3 (thorough 4) Runtime.CompileAndRun calls over {same text, comment-only edit, other program, syntax error, registration refused by a kind conflict, keys changed, declaration moved} and every history of directory edits + LoadAllPrograms - identical source changes nothing (same VM, same store objects, no load counted), a failed compile or refused registration leaves store and running VM exactly as they were, a kept declaration keeps its datum, a replaced VM is stopped",
  note="store step as C06; loader histories enumerated by forking over a model file system with the working tree's compiler's answers replayed (bridge); lines and GC during a reload are outside (C20, C11)"),
 "C22": dict(level="model_checking", ref="DESIGN.md 4 C22",
  text="metamorphic check of metricToGraphite/Statsd/Collectd/Varz on the real code: the record for label set 2 of a two-label-set metric equals the record of a metric holding only that label set, for every kind/type incl. graphite histograms, with symbolic values, timestamps, observations and label letters; records of different label sets differ (records compared as sets of lines: graphite histogram lines are written in Go map order); graphite/statsd/collectd records also equal a reference record; the push path (writeSocketMetrics) writes one record per label set, each in a write of its own; label values are any printable non-separator byte",
  note="fmt.Sprintf etc. are engine models producing opaque formatted-number pieces (equal iff arguments equal); JSON export excluded (encoding/json reflection not encodable)"),
})

CHECKS.update({
 "C02": dict(level="translation_validation", ref="DESIGN.md 4 C02",
  text="for each of the 24 (operator, lhs type, rhs type) combinations of + - * / % ** over int and float literals: the real opt.Optimise on a BinaryExpr of two literals with fully symbolic values is compared with the real VM executing the bytecode the working tree's compiler emits WITHOUT optimisation for `g = A op B` (operands replaced by the same symbols): folded literal type and value equal the runtime result, no runtime error where the fold is accepted, rejection iff / or % by a literal zero; plus a concrete boundary-value grid per combination",
  note="math.Pow/math.Mod uninterpreted in the symbolic jobs (grid jobs evaluate them natively); nested constants by the bottom-up argument; sentinel substitution assumes checker/codegen treat literal values opaquely"),
})

CHECKS.update({
 "C04": dict(level="model_checking", ref="DESIGN.md 4 C04",
  text="bounded symbolic execution of the real vm.New/ProcessLogLine/execute (HardCrash on, recovered panics logged by the engine) on the bytecode the working tree's compiler emits for a corpus of programs: one line from an arbitrary metric state, every combination of patterns matching or not, captures as symbolic bytes of the group's class; no panic, pc within the program, every runtime error raised is one of the VM's explicit checked conditions",
  note="program structure is enumerated (corpus in engine/checks_vm.go: quick 21, thorough 30 programs), values/captures/match outcomes are the solver's; captures <= 2 bytes; regexp engine replaced by a harness match table; strconv.ParseFloat/time.Parse uninterpreted with native refinement"),
 "C05": dict(level="model_checking", ref="DESIGN.md 4 C05",
  text="two-run equivalence on the real VM: instance A processes an arbitrary earlier line (symbolic match outcomes and captures) and then the line; instance B is a fresh vm.New on the same bytecode whose metrics were given A's values; the solver shows that metrics (label sets, values, expiry marks, timestamps up to clock skew) and the runtime-error count of the line are identical for every assignment, i.e. nothing but metrics is carried across lines (captures, time register, strptime memo, terminate flag, runtime error)",
  note="history of one earlier line (the carried state after one line is what the next line sees); corpus as C04 incl. strptime with two layouts, stop, failing conversions, short-circuit || with a capture read in the body; captures <= 1 byte quick, 2 thorough; time.Parse uninterpreted (same function for both instances)"),
 "C25": dict(level="model_checking", ref="DESIGN.md 4 C25",
  text="per-unit exactness of the self-monitoring counters on every explored path: log_lines_total[source] moves by exactly the number of lines the LineReader delivered (C15 harness: every byte string, chunking and buffer size in bound, incl. the flushed last fragment); prog_runtime_errors_total[prog] moves by exactly 1 on a line aborted by a runtime error and 0 otherwise (C04 harness and the C05 multi-line history programs) and never on a load; prog_loads_total / prog_unloads_total / prog_load_errors_total move by exactly the loads, unloads and failed loads (syntax error, refused registration) of every loader history (C14/C26 harnesses)",
  note="expvar is a counter table in the engine (natively: the real expvar maps); lines_total vs the sum over all streams and log_count (whole program) are outside this claim"),
})

CHECKS.update({
 "C23": dict(level="model_checking", ref="DESIGN.md 9 C23",
  text="reduced: what mfmt does (parser.Parse, checker.Check, Unparser.Unparse) applied to the eleven C03 templates with one byte at any position replaced by an arbitrary byte: whenever the checker accepts the perturbed program, the formatted text is accepted too, formatting it again gives the identical text, and the two texts compile to the same program - the same opcodes and operands, strings, patterns, and metric declarations (kind, name, type, hidden flag, keys, limit, buckets)",
  note="only one-byte perturbations of the eleven templates; equality of meaning is equality of the compiled programs (the exported name of a metric is not part of the compiled metric and is compared through the text's idempotence only); comments are dropped by the formatter by design"),
 "C03": dict(level="model_checking", ref="DESIGN.md 9 C03",
  text="reduced: the real compiler pipeline (parser.Parse with the real lexer and goyacc parser, opt.Optimise, checker.Check, codegen.CodeGen: the body of Compiler.Compile) executed symbolically on eleven program templates (declarations of every kind, by/limit/buckets/hidden/as, arithmetic, comparisons and logic, patterns with captures, const patterns and concatenation, conditionals with else and otherwise, decorators with next, del-after, strptime and other builtins, stop) in which one byte at any position (thorough: also two adjacent bytes, on the first four templates) is replaced by an arbitrary byte: it never panics, returns code or errors, never both and never neither, and a second compilation of the same text gives the same outcome and the same opcode sequence",
  note="only byte perturbations of the eleven templates, not arbitrary source texts; regexp/syntax.Parse, Regexp.Simplify/CapNames and regexp.Compile are the real functions applied to the pattern text with its symbolic byte concretised (a fork per value); unicode.IsLetter/IsDigit/IsSpace and UTF-8 decoding/encoding are engine models on symbolic runes; termination is bounded by the engine's per-path step budget"),
 "C17": dict(level="model_checking", ref="DESIGN.md 9 C17",
  text="named pipes, stream sockets and datagram sockets: bounded model checking of the real fifoStream.stream goroutine and LineReader over a model pipe (byte queue + open writing ends; reads return a solver-chosen chunk, end of file without a writer, an i/o timeout after SetReadDeadline, and wait otherwise): every history of 3 (thorough 4) writer-side steps {open, write 1..2 symbolic bytes, close, poll}; the lines delivered are the bytes written split at newlines, each once and in order, the tail once at the end; the stream ends after the writer closed (once something was read) or on cancellation, and not before; and of the real socketStream (listener, accept loop, one handler goroutine per connection) over a model of a listening unix stream socket with up to two connections: each connection's bytes arrive as its own lines in its own order, lines of different connections are never merged (the delivered sequence is an interleaving of the two expected sequences), tails once, and the stream ends on cancellation - also when nobody ever connected; and of the real dgramStream over a model datagram socket with one sender (datagrams of 0..2 symbolic bytes): the bytes in sending order split at newlines, the tail at cancellation",
  note="standard input is NOT covered, nor are two datagram senders: for those parts of the property nothing is claimed; the socket model is a listener with a queue of pending connections and per-connection byte queues (reads: solver-chosen chunk / EOF after the peer closed / i/o timeout after SetReadDeadline / error after Close); one writer per pipe; natively a real fifo (mkfifo) and a real unix socket in a temporary directory"),
 "C19": dict(level="model_checking", ref="DESIGN.md 9 C19",
  text="bounded model checking of a one-shot run of the real runtime (runtime.New: program loading from the model directory, dispatcher, VM goroutines) and the real tailer in one-shot mode (glob, file streams, LineReader) wired as mtail.New wires them (one unbuffered channel, one WaitGroup; Run = wg.Wait): 1..2 log files whose 0..3 (thorough 4) bytes are symbolic, two programs; after the run each program has counted exactly the lines of the property's sentence, in total and per file, and no goroutine is left",
  note="the exporter, HTTP server and Prometheus registry of mtail.New are not started; one deterministic schedule; programs without patterns (so the order of lines within a file is not observed); file order across files is whatever the glob returns"),
 "C18": dict(level="model_checking", ref="DESIGN.md 4 C18",
  text="bounded model checking of the real Tailer (New, AddPattern, the pattern poll goroutines, doPatternGlob, Ignore, TailPath, the forwarding goroutines) and the real file streams over the model file system, with two overlapping glob patterns and an ignore expression: every history of 2 edits over a universe of five fixed names plus one file whose name is 1..4 (thorough 5) symbolic bytes, each edit followed by a pattern poll and a stream poll; then the tailer's streams are exactly the existing regular files that the property's sentence (written over the name's bytes) makes eligible, and a line appended to each arrives exactly once",
  note="filepath.Glob lists the model directory and asks the real filepath.Match (interpreted from its source) about every name; url.Parse on a symbolic path is an engine model (no scheme, control character = error, path ends at the first ? or #, escapes excluded: names with %% are outside); the ignore expression is decided on the symbolic name for anchored literals; goroutines under the deterministic scheduler, settled after each wake-up"),
 "C20": dict(level="model_checking", ref="DESIGN.md 4 C20",
  text="bounded model checking of one reload of a running program, beside a second program that is not reloaded, in the real runtime (runtime.New's dispatcher goroutine, CompileAndRun, the VM goroutines, the real store) with lines sent on the real channel: the next line arrives at a solver-chosen point among the points at which the reloading goroutine releases a runtime or store lock, or after the reload, or is already in flight (handed to the dispatcher) when the reload begins, and a VM that has received a line may be held back before it processes it; every line is counted by exactly one version, old before new, a kept declaration shows every line's effect in the store (a counter counts every line, a gauge ends with the last line's value), the other program sees every line once, the replaced version stops, and closing the input stops everything",
  note="interleaving is explored for the reloading goroutine only, at its lock-release points (handleMu, programErrorMu, insertMu, searchMu); dispatcher and VMs run to quiescence after each line except for up to 1 (thorough 2) hold-backs of a VM at the entry of ProcessLogLine; programs: an unconditional counter (scalar or with a constant label) and a gauge set from the line; one reload, 2..3 (thorough 4) lines; natively replayed by rewriting the same Unlock call sites to call the harness hook"),
 "C07": dict(level="model_checking", ref="DESIGN.md 4 C07",
  text="bounded symbolic execution of the real vm.New/ProcessLogLine/execute (Strptime, Settime, Timestamp), VM.ParseTime, the groupcache LRU memo and BaseDatum.stamp on compiled programs made of strptime/settime/plain blocks: after an arbitrary earlier line, one line with symbolic value bytes (8-digit dates under two layouts, 15-byte syslog stamps), symbolic settime operand (any int64), syslog-current-year on/off, zone none/UTC+9/UTC-3:30, symbolic wall clock; timestamp() and the stamps of data updated on the line equal the instant the property defines, a runtime error is raised iff the value does not parse, whatever was parsed before",
  note="time.Parse is an uninterpreted function for the returned instant, with exact axioms (validated against the native function, engine/timeparse_test.go) for acceptance, year, nanosecond and is-zero-instant for layouts built from 2006 01 02 _2 15 04 05 Jan; Year/AddDate uninterpreted with native refinement of counterexamples; one listed known finding (a value parsing to the reserved zero instant reads as unset) witnessed by a concrete job"),
})

CHECKS.update({
 "C01": dict(level="model_checking", ref="DESIGN.md 4 C01",
  text="differential bounded model checking of compiled programs against a reference interpreter of the intended tree written from docs/Language.md: program shapes are enumerated from a typed grammar (operator pairs at every level in both association orders, comparisons, && ||, =~, nested conditionals with else/otherwise, assignments and ++ -- +=, dimensioned metrics and label text, builtins and conversions, del / del after, stop, decorators with next); each shape's text is compiled by the working tree's compiler and run on the real VM, the reference runs on a second copy of the metrics; the solver decides equality of label sets, values, expiry marks and runtime-error outcome for every match outcome, capture and metric value; a shape the compiler rejects fails the check",
  note="quick 58 shapes, thorough ~330; one line per run from arbitrary metric values; captures <= 2 bytes; one listed known finding (otherwise after/inside an else body follows one global matched flag), attributed only on lines where the scope rule and the flag scheme decide an otherwise differently; reference choices where Language.md is silent are listed in harness/vm/c01.go"),
})

CHECKS.update({
 "C26": dict(level="model_checking", ref="DESIGN.md 4 C26",
  text="bounded symbolic execution of the real Runtime.LoadAllPrograms / LoadProgram / CompileAndRun / UnloadProgram over a model file system: (a) one file whose name is 5..7 (thorough 9) arbitrary bytes - it is loaded iff it is not hidden and its extension is exactly .mtail; (b) every history of 3 (thorough 4) edits over two program files (valid v1, valid v2, broken, removed) plus a dot-file, a non-.mtail file and a subdirectory, each followed by a reload: the running programs are exactly the eligible files that compiled since they were added, each on its latest compiled contents, an unchanged file keeps its VM, replaced and removed programs have their line channel closed",
  note="file-name bytes are symbolic (solver); the history of edits is enumerated by forking; the compiler's answers are the working tree's compiler's, pre-computed through the bridge; natively the same harness runs on a real directory with the real compiler; lines are not sent (ordering across reloads is C20)"),
})

CHECKS.update({
 "C16": dict(level="model_checking", ref="DESIGN.md 4 C16",
  text="bounded model checking of the real newFileStream / fileStream.stream goroutines and LineReader over a model file system (inodes, descriptors that outlive rename/unlink, Seek, Stat/SameFile): every history of 3 (thorough 4) steps over {append line, append fragment, append CRLF line, truncate, rename+create, copy+truncate, delete, re-create, poll} with arbitrary payload bytes, the stream woken and run to idle after each step, then tailing stopped; the delivered lines equal the property's sentence evaluated over the history (every appended line once, in order; a fragment left at the end of a generation delivered once, verbatim, never glued to later data)",
  note="histories are enumerated by forking, payload bytes and line comparisons are the solver's; goroutines under the engine's deterministic scheduler, 'observed each step' realised by a harness waker; natively the same harness runs on a real directory with real goroutines; one payload byte per append (longer data: C15)"),
})

CHECKS.update({
 "C11": dict(level="model_checking", ref="DESIGN.md 9 C11",
  text="reduced scope: data races between any two of 13 operations that mtail runs concurrently on one store (datum lookup/creation, deletion, expiry marks, value updates; Store.Gc; Store.Add of a re-declared metric; Prometheus Collect, varz, graphite and push exports; FindMetricOrNil): the real code of both operations is executed by the engine in either order on a store with one metric (each value type) and two label sets while every load, store, map and atomic access to the shared pre-state is recorded with the locks held; for every conflicting pair of accesses the solver is asked for a schedule of all recorded events of both operations (program order, mutual exclusion of conflicting critical sections, reads-from between the runs) in which the two accesses are adjacent - sat is a race, replayed natively by running the two operations concurrently under the race detector",
  note="91 pairs; not claimed: more than two concurrent operations, lost updates / stale multi-word reads that are not data races, the JSON export, the runtime's handle map; accesses of goroutines an operation starts inherit the locks the parent holds while it waits for them; cells created during an operation are not tracked"),
})

NOT_APPLICABLE = {
 "C24": "the compiler does run in the engine (C03, C23), but deciding C24 needs an oracle for 'this program is invalid for reason X' over the perturbed texts, i.e. a second implementation of the checker's rules; with concrete invalid programs only (no value dimension) it degenerates to the enumeration the repository's tests already do (DESIGN.md 4 C24, 9)",
}

# properties planned but whose check is not built yet are listed as not applicable
# with that reason until their check is registered (kept current by hand)
PENDING = {
 "C01": "check not built yet (planned: DESIGN.md 4 C01)",
 "C02": "check not built yet (planned: DESIGN.md 4 C02)",
 "C04": "check not built yet (planned: DESIGN.md 4 C04)",
 "C05": "check not built yet (planned: DESIGN.md 4 C05)",
 "C06": "check not built yet (planned: DESIGN.md 4 C06)",
 "C07": "check not built yet (planned: DESIGN.md 4 C07)",
 "C12": "check not built yet (planned: DESIGN.md 4 C12)",
 "C13": "check not built yet (planned: DESIGN.md 4 C13)",
 "C14": "check not built yet (planned: DESIGN.md 4 C14)",
 "C16": "check not built yet (planned: DESIGN.md 4 C16)",
 "C22": "check not built yet (planned: DESIGN.md 4 C22)",
 "C25": "check not built yet (planned: DESIGN.md 4 C25)",
 "C26": "check not built yet (planned: DESIGN.md 4 C26)",
}

def main():
    checks = []
    for pid in sorted(CHECKS):
        c = CHECKS[pid]
        checks.append({
            "property_id": pid,
            "quick_cmd": "./verif check %s --tier quick" % pid,
            "thorough_cmd": "./verif check %s --tier thorough" % pid,
            "evidence_file": "/verif/evidence/%s.json" % pid,
            "replay_cmd_template": "./verif replay {path}",
            "engine": "gosym",
            "level_claimed": {"category": c["level"], "text": c["text"], "design_ref": c["ref"]},
            "level_note": c["note"],
            "technique": c.get("technique", TECH),
        })
    na = [{"property_id": k, "reason": v} for k, v in sorted(NOT_APPLICABLE.items())]
    na += [{"property_id": k, "reason": v} for k, v in sorted(PENDING.items()) if k not in CHECKS]
    m = {
        "version": 1,
        "setup_cmd": "cd /verif/engine && GOFLAGS=-mod=mod GOPROXY=off GOSUMDB=off GOTOOLCHAIN=local go build -o /verif/bin/gosym .",
        "hooks": {
            "guard": "verif",
            "enable": "no hooks are needed: harnesses are injected into the package under test with go/packages overlays (engine) and go test -overlay (native replay); nothing under /repo is modified by a check",
            "baseline_off_cmd": "/verif/tools/baseline.sh",
            "source_commits": [],
            "add_only": True,
        },
        "engines": [{
            "name": "gosym", "path": "/verif/engine", "serves_properties": sorted(CHECKS),
            "kind_free_text": "symbolic executor for Go over go/ssa (x/tools v0.29.0): the real mtail functions are interpreted instruction by instruction with symbolic scalars (bit-vectors, IEEE floats, byte strings); branch feasibility and assertions are discharged by z3 -in (push/pop, one process per worker); counterexamples and sampled paths are replayed natively with go test -overlay",
        }],
        "checks": checks,
        "notes": "see DESIGN.md; exit codes: 0 held / known findings only, 1 VIOLATION confirmed natively, 2 inconclusive (solver unknown, unsupported construct, budget) - never reported as a pass",
        "not_applicable": sorted(na, key=lambda x: x["property_id"]),
    }
    json.dump(m, open("/verif/MANIFEST.json", "w"), indent=1)
    print("MANIFEST.json: %d checks, %d not applicable" % (len(checks), len(na)))

main()
