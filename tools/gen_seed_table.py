#!/usr/bin/env python3
"""Regenerates the seed table of DESIGN.md section 11 from seeded/*/meta.json."""
import json, os, re
root = os.path.dirname(os.path.dirname(os.path.abspath(__file__)))
rows = []
def key(s):
    m = re.match(r'C(\d+)(?:-r(\d+))?$', s)
    return (int(m.group(1)), int(m.group(2) or 1))
seeds = sorted([d for d in os.listdir(os.path.join(root, 'seeded')) if os.path.exists(os.path.join(root, 'seeded', d, 'meta.json'))], key=key)
det = 0
for s in seeds:
    m = json.load(open(os.path.join(root, 'seeded', s, 'meta.json')))
    by = '; '.join(m.get('detected_by') or [])
    if by:
        det += 1
    else:
        by = '**not reported**: ' + m.get('remark', '')
    br = m['breaks'].split('\n')[0].strip().lstrip('# ').replace('|', '\\|')
    rows.append('| %s | %s | %s |' % (s, br, by.replace('|', '\\|').replace('\n', ' ')))
p = os.path.join(root, 'DESIGN.md')
txt = open(p).read()
head = '| seed | change | reported by |\n|---|---|---|\n'
i = txt.index(head) + len(head)
j = txt.index('\n\n', i)
txt = txt[:i] + '\n'.join(rows) + txt[j:]
open(p, 'w').write(txt)
print('%d seeds, %d reported' % (len(seeds), det))
