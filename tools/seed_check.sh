#!/bin/sh
# seed_check.sh <seed dir name> <check id> [tier]: apply the seeded change to
# /repo, run the check, undo the change straight away; prints the exit code.
SEED=$1; ID=$2; TIER=${3:-quick}
cd /verif
if [ -n "$(git -C /repo status --porcelain)" ]; then echo "/repo not clean"; exit 2; fi
git -C /repo apply /verif/seeded/$SEED/patch.diff || { echo "patch does not apply"; exit 2; }
./verif check $ID --tier $TIER > /tmp/seedcheck-$SEED-$ID.log 2>&1; RC=$?
git -C /repo checkout -- .
grep -E "VIOLATION|KNOWN-FINDING|INCONCLUSIVE|held on" /tmp/seedcheck-$SEED-$ID.log | head -8
echo "SEED $SEED CHECK $ID exit=$RC"
