#!/bin/sh
# solver_diff.sh <solver> [checks...]: re-runs the quick tier of the checks with
# another solver (VERIF_SOLVER: z3-new | cvc5) into a scratch directory and
# compares, per job, paths / sat / unsat / unknown / violations with the
# evidence in /verif/evidence (written by the registered z3 4.8.12 runs).
SOLVER=$1; shift
CHECKS=${*:-"C01 C02 C04 C05 C06 C07 C08 C09 C10 C11 C12 C13 C14 C15 C16 C21 C22 C25 C26"}
OUT=$(mktemp -d /tmp/verif-solverdiff.XXXXXX)
cd /verif
for c in $CHECKS; do
  VERIF_SOLVER=$SOLVER VERIF_OUT=$OUT ./verif check $c --tier quick > $OUT/$c.log 2>&1; rc=$?
  python3 - $c $OUT $rc $SOLVER <<'PY'
import json, sys
c, out, rc, solver = sys.argv[1], sys.argv[2], sys.argv[3], sys.argv[4]
try:
    a = json.load(open('/verif/evidence/%s.json' % c)); b = json.load(open('%s/evidence/%s.json' % (out, c)))
except Exception as e:
    print("%s: %s exit=%s no evidence (%s)" % (c, solver, rc, e)); sys.exit()
ja = {j['name']: j for j in a['coverage']['jobs']}; diffs = []
for j in b['coverage']['jobs']:
    r = ja.get(j['name'])
    if not r: diffs.append(j['name'] + ': job missing in reference'); continue
    for k in ('paths', 'paths_cut_by_assume', 'unknown', 'violations'):
        if j[k] != r[k]: diffs.append('%s: %s %s vs %s' % (j['name'], k, j[k], r[k]))
print("%s: %s exit=%s jobs=%d %s" % (c, solver, rc, len(b['coverage']['jobs']), 'AGREES (paths, cut paths, unknowns, violations per job)' if not diffs else 'DIFFERS: ' + '; '.join(diffs[:6])))
PY
done
rm -rf $OUT
