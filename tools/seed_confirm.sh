#!/bin/sh
# seed_confirm.sh <ID> <patch> <demo file> <demo dest dir in repo> <test regex>
# Confirms a seeded change in a scratch worktree of /repo HEAD: demo fails with
# the patch, the baseline suite still passes with it, demo passes without it.
set -u
ID=$1; PATCH=$2; DEMO=$3; DEST=$4; RX=$5
export GOFLAGS=-mod=mod GOPROXY=off GOSUMDB=off GOTOOLCHAIN=local
WT=/tmp/seedwt-$ID
git -C /repo worktree remove --force $WT >/dev/null 2>&1
git -C /repo worktree add --detach $WT HEAD >/dev/null 2>&1 || { echo "worktree failed"; exit 2; }
trap 'git -C /repo worktree remove --force $WT >/dev/null 2>&1' EXIT
cd $WT
cp "$DEMO" "$DEST/" || exit 2
echo "== demo on pristine (expect PASS)"
go test -vet=off -count=1 -run "$RX" ./$DEST/ >/tmp/seed-$ID-pristine.log 2>&1; P=$?
tail -3 /tmp/seed-$ID-pristine.log
git apply "$PATCH" || { echo "PATCH DOES NOT APPLY"; exit 2; }
echo "== demo with patch (expect FAIL)"
go test -vet=off -count=1 -run "$RX" ./$DEST/ >/tmp/seed-$ID-mut.log 2>&1; M=$?
tail -5 /tmp/seed-$ID-mut.log
rm -f "$DEST/$(basename $DEMO)"
echo "== baseline suite with patch (expect all stable tests pass)"
VERIF_REPO=$WT /verif/tools/baseline.sh; B=$?
echo "RESULT id=$ID demo_pristine_rc=$P demo_mutant_rc=$M suite_rc=$B"
[ $P -eq 0 ] && [ $M -ne 0 ] && [ $B -eq 0 ] && echo "CONFIRMED $ID" || echo "NOT CONFIRMED $ID"
