package runtime

import (
	"github.com/google/mtail/internal/metrics"
	"github.com/google/mtail/internal/runtime/vm"
)

func init() {
	metrics.VerifYield = verifYieldAny
	vm.VerifPreempt = verifPreemptPoint
}
