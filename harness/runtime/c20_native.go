package runtime

import "github.com/google/mtail/internal/metrics"

func init() { metrics.VerifYield = verifYieldAny }
