package runtime

import (
	"sort"
	"strings"
	"time"

	"github.com/google/mtail/internal/metrics"
	"github.com/google/mtail/internal/metrics/datum"
	"github.com/google/mtail/internal/runtime/compiler"
	"github.com/google/mtail/internal/runtime/vm"
)

// Harnesses of the program loader: C26 (directory scanning), C14 loader part
// (reload preserves state, failed loads change nothing), C25(c) (load, unload
// and load-error counters).  The real LoadAllPrograms / LoadProgram /
// CompileAndRun / UnloadProgram run over a model file system (natively: a
// temporary directory); the compiler's result for each program text used here
// is the working tree's own compiler's result (engine: pre-computed through
// the compile bridge; natively: the real compiler).

// program texts (versions)
const (
	lvV1   = "counter va\nva++\n"
	lvV1c  = "counter va\nva++\n# a comment\n"
	lvV1m  = "\ncounter va\nva++\n"
	lvV2   = "counter vb\nvb++\n"
	lvBad  = "counter va\nva+\n"
	lvKC   = "counter va\nva++\ngauge shared\nshared = 1\n"
	lvOth  = "counter shared\nshared++\n"
	lvKeys = "counter va by k\nva[\"x\"]++\n"
	lvKeyC = "counter va by k\nva[\"x\"]++\n# a comment\n"
	lvG1   = "gauge va\n/(\\d+)/ {\n  va = $1\n}\n"
	lvG1c  = "gauge va\n/(\\d+)/ {\n  va = $1\n}\n# a comment\n"
)

func lvCompiles(c string) bool { return c != lvBad && c != "" }

// first metric of each version, which identifies the version that runs
func lvFirstMetric(c string) string {
	if c == lvV2 {
		return "vb"
	}
	if c == lvOth {
		return "shared"
	}
	return "va"
}

func newLoader() (*Runtime, *metrics.Store) {
	store := metrics.NewStore()
	c, err := compiler.New()
	if err != nil {
		vAssert(false, "L.setup")
	}
	r := &Runtime{ms: store, c: c, programPath: vfsRoot(), handles: map[string]*vmHandle{}, programErrors: map[string]error{}, signalQuit: make(chan struct{})}
	return r, store
}

func lvClosed(h *vmHandle) bool {
	select {
	case _, ok := <-h.lines:
		return !ok
	default:
		return false
	}
}

// lvStoreSnapshot lists the store's metric objects in a fixed order.
func lvStoreSnapshot(s *metrics.Store) []*metrics.Metric {
	var names []string
	for n := range s.Metrics {
		names = append(names, n)
	}
	sort.Strings(names)
	var out []*metrics.Metric
	for _, n := range names {
		out = append(out, s.Metrics[n]...)
	}
	return out
}

func lvSameStore(a, b []*metrics.Metric) bool {
	if len(a) != len(b) {
		return false
	}
	for i := range a {
		if a[i] != b[i] {
			return false
		}
	}
	return true
}

type lvCounters struct{ loads, unloads, errs int64 }

func lvCount(name string) lvCounters {
	return lvCounters{vExpvar("prog_loads_total", name), vExpvar("prog_unloads_total", name), vExpvar("prog_load_errors_total", name)}
}

// ---- C26 (a): which file names are programs ----

func HarnessC26Eligible() {
	r, _ := newLoader()
	n := nondetRange("name.len", vParam("minlen", 6), vParam("maxlen", 7))
	b := make([]byte, n)
	for i := range b {
		b[i] = nondetByte("name")
		vAssume(vAnd(b[i] != '/', b[i] != 0))
	}
	name := string(b)
	vfsWrite(name, lvV1)
	err := r.LoadAllPrograms()
	vAssert(err == nil, "C26.reload-reports-no-internal-error")
	// non-hidden, extension exactly .mtail
	eligible := false
	if n >= 6 && b[0] != '.' && strings.HasSuffix(name, ".mtail") {
		eligible = true
	}
	_, running := r.handles[name]
	vAssert(running == eligible, "C26.loaded-iff-non-hidden-file-with-the-mtail-extension")
	if eligible {
		vAssert(len(r.handles) == 1, "C26.nothing-else-loaded")
	} else {
		vAssert(len(r.handles) == 0, "C26.nothing-else-loaded")
	}
	vObserve("handles", len(r.handles))
}

// ---- C26 (b) / C25 (c): histories of edits, each followed by a reload ----

type lvFile struct {
	present bool
	content string
	running string // content that runs, "" = not loaded
}

func HarnessC26History() {
	r, _ := newLoader()
	names := []string{"a.mtail", "b.mtail"}
	files := []lvFile{{}, {}}
	steps := vParam("steps", 2)
	for s := 0; s < steps; s++ {
		switch nondetRange("op", 0, 9) {
		case 9:
			// b.mtail is renamed over a.mtail
			if files[1].present {
				vfsRename(names[1], names[0])
				files[0] = lvFile{present: true, content: files[1].content, running: files[0].running}
				files[1].present, files[1].content = false, ""
			}
		case 0:
			vfsWrite(names[0], lvV1)
			files[0].present, files[0].content = true, lvV1
		case 1:
			vfsWrite(names[0], lvV2)
			files[0].present, files[0].content = true, lvV2
		case 2:
			vfsWrite(names[0], lvBad)
			files[0].present, files[0].content = true, lvBad
		case 3:
			vfsWrite(names[1], lvV2)
			files[1].present, files[1].content = true, lvV2
		case 4:
			vfsRemove(names[0])
			files[0].present, files[0].content = false, ""
		case 5:
			vfsRemove(names[1])
			files[1].present, files[1].content = false, ""
		case 6:
			vfsWrite(".h.mtail", lvV1)
		case 7:
			vfsWrite("x.txt", lvV1)
		case 8:
			vfsMkdir("d.mtail")
		}
		old := map[string]*vmHandle{}
		for k, h := range r.handles {
			old[k] = h
		}
		before := []lvCounters{lvCount(names[0]), lvCount(names[1])}
		err := r.LoadAllPrograms()
		vAssert(err == nil, "C26.reload-reports-no-internal-error")
		want := 0
		for i, nm := range names {
			f := &files[i]
			was := f.running
			var exp lvCounters
			switch {
			case !f.present:
				f.running = ""
				if was != "" {
					exp.unloads = 1
				}
			case f.content == was:
				// unchanged source: nothing happens
			case lvCompiles(f.content):
				f.running = f.content
				exp.loads = 1
			default:
				exp.errs = 1 // broken edit: the previous version, if any, keeps running
			}
			h, ok := r.handles[nm]
			if f.running == "" {
				vAssert(!ok, "C26.only-eligible-files-that-compiled-are-running")
			} else {
				want++
				vAssert(ok, "C26.only-eligible-files-that-compiled-are-running")
				if ok {
					vAssert(h.vm.Metrics[0].Name == lvFirstMetric(f.running), "C26.each-program-runs-its-most-recently-compiled-contents")
					vAssert(!lvClosed(h), "C26.running-program-receives-lines")
					if f.running == was {
						vAssert(h == old[nm], "C14.reloading-identical-source-changes-nothing")
					}
				}
			}
			if o := old[nm]; o != nil && (!ok || h != o) {
				vAssert(lvClosed(o), "C26.replaced-or-removed-program-stops-receiving-lines")
			}
			after := lvCount(nm)
			vAssert(after.loads-before[i].loads == exp.loads, "C25.prog_loads_total-counts-loads")
			vAssert(after.unloads-before[i].unloads == exp.unloads, "C25.prog_unloads_total-counts-unloads")
			vAssert(after.errs-before[i].errs == exp.errs, "C25.prog_load_errors_total-counts-failed-loads")
		}
		vAssert(len(r.handles) == want, "C26.subdirectories-other-files-and-dot-files-are-never-loaded")
	}
	vObserve("handles", len(r.handles))
}

// ---- C14 loader part / C25 (c): CompileAndRun histories ----

func HarnessC14Loader() {
	r, store := newLoader()
	const prog = "p.mtail"
	// another program owns a counter named `shared`
	if r.CompileAndRun("other.mtail", strings.NewReader(lvOth)) != nil {
		vAssert(false, "L.setup")
		return
	}
	versions := []string{lvV1, lvV1c, lvV2, lvBad, lvKC, lvKeys, lvV1m}
	running := ""
	// the program has raised runtime errors before: no load, reload or
	// refused load is a runtime error, so none may move that count
	vm.ProgRuntimeErrors.Add(prog, 3)
	rtErrs := vExpvar("prog_runtime_errors_total", prog)
	steps := vParam("steps", 2)
	for s := 0; s < steps; s++ {
		c := versions[nondetRange("version", 0, vParam("versions", 5))]
		// give the running program's first metric a value to keep
		var keep datum.Datum
		if running != "" {
			if m := store.FindMetricOrNil(lvFirstMetric(running), prog); m != nil && len(m.Keys) == 0 {
				d, err := m.GetDatum()
				if err == nil {
					datum.IncIntBy(d, 5, time.Time{})
					keep = d
				}
			}
		}
		old := r.handles[prog]
		snap := lvStoreSnapshot(store)
		before := lvCount(prog)
		err := r.CompileAndRun(prog, strings.NewReader(c))
		after := lvCount(prog)
		h := r.handles[prog]
		vAssert(vExpvar("prog_runtime_errors_total", prog) == rtErrs, "C25.prog_runtime_errors_total-counts-runtime-errors-only")
		switch {
		case c == running:
			vAssert(err == nil, "C14.reloading-identical-source-changes-nothing")
			vAssert(h == old, "C14.reloading-identical-source-changes-nothing")
			vAssert(lvSameStore(snap, lvStoreSnapshot(store)), "C14.reloading-identical-source-changes-nothing")
			vAssert(after.loads == before.loads && after.unloads == before.unloads && after.errs == before.errs, "C25.prog_loads_total-counts-loads")
		case !lvCompiles(c) || c == lvKC:
			// fails to compile, or to register `shared` (a counter elsewhere)
			vKnown("C14-refused-registration-leaves-earlier-metrics", c == lvKC)
			vAssert(err != nil, "C14.failed-load-is-reported")
			vAssert(h == old, "C14.failed-load-leaves-the-previous-version-running")
			if old != nil {
				vAssert(!lvClosed(old), "C14.failed-load-leaves-the-previous-version-running")
			}
			vAssert(lvSameStore(snap, lvStoreSnapshot(store)), "C14.failed-load-leaves-the-export-exactly-as-it-was")
			vAssert(after.errs-before.errs == 1, "C25.prog_load_errors_total-counts-failed-loads")
			vAssert(after.loads == before.loads, "C25.prog_loads_total-counts-loads")
		default:
			vAssert(err == nil, "C14.valid-source-loads")
			vAssert(h != nil && h != old, "C14.valid-source-loads")
			if h == nil {
				return
			}
			if old != nil {
				vAssert(lvClosed(old), "C14.replaced-version-is-stopped")
			}
			vAssert(h.vm.Metrics[0].Name == lvFirstMetric(c), "C14.valid-source-loads")
			vAssert(after.loads-before.loads == 1, "C25.prog_loads_total-counts-loads")
			vAssert(after.errs == before.errs, "C25.prog_load_errors_total-counts-failed-loads")
			// a kept declaration (same kind, name, type, keys, same place) keeps its value
			if keep != nil && lvFirstMetric(c) == lvFirstMetric(running) && c != lvKeys && c != lvV1m && running != lvV1m && running != lvKeys {
				m := store.FindMetricOrNil(lvFirstMetric(c), prog)
				vAssert(m != nil, "C14.kept-declaration-keeps-its-values")
				if m != nil {
					d, derr := m.GetDatum()
					vAssert(derr == nil && d == keep, "C14.kept-declaration-keeps-its-values")
				}
			}
			// never two metrics of one program under one name
			for _, ms := range store.Metrics {
				n := 0
				for _, m := range ms {
					if m.Program == prog {
						n++
					}
				}
				vKnown("C14-duplicate-after-type-or-source-change", c == lvV1m || running == lvV1m)
				vAssert(n <= 1, "C14.no-duplicate-series-from-one-program")
			}
			running = c
		}
	}
	vObserve("running", running)
}
