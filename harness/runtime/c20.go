package runtime

import (
	"strings"
	"sync"

	"github.com/google/mtail/internal/logline"
	"github.com/google/mtail/internal/metrics"
	"github.com/google/mtail/internal/metrics/datum"
)

// C20: lines reach each program exactly once, in order, across a reload.
//
// The real runtime (New: dispatcher goroutine, CompileAndRun, VM goroutines)
// runs one program; lines are sent on the real lines channel.  One reload is
// made while lines arrive: the harness may send the next line at any point at
// which the reloading goroutine releases a lock of the runtime or of the
// store (handleMu, programErrorMu, insertMu, searchMu; verifYieldAny: called by the engine right after each such
// Unlock/RUnlock of the main goroutine, natively by a source rewrite of the
// same call sites), or after the reload.  The other goroutines (dispatcher,
// old and new VM) run until none can go on after every line (one schedule).
// Every line must have been counted by exactly one version, old before new,
// and a declaration kept by the reload must show every line's effect in the
// store.

var c20 struct {
	armed bool
	sent  bool
	point int
	send  func()
}

func verifYieldAny() {
	if !c20.armed || c20.sent {
		return
	}
	c20.point++
	if nondetBool("line-arrives-here") {
		c20.sent = true
		c20.send()
	}
}

// c20Count reads a counter metric's total: the scalar datum or the "x" label set.
func c20Count(m *metrics.Metric) int64 {
	if m == nil {
		return 0
	}
	var lv *metrics.LabelValue
	if len(m.Keys) == 0 {
		lv = m.FindLabelValueOrNil(nil)
	} else {
		lv = m.FindLabelValueOrNil([]string{"x"})
	}
	if lv == nil {
		return 0
	}
	return datum.GetInt(lv.Value)
}

func HarnessC20Reload() {
	vClockFreeze()
	const prog = "p.mtail"
	store := metrics.NewStore()
	lines := make(chan *logline.LogLine)
	var wg sync.WaitGroup
	r, err := New(lines, &wg, "", store)
	if err != nil || r == nil {
		vAssert(false, "L.setup")
		return
	}
	olds := []string{lvV1, lvKeys}
	news := [][]string{{lvV1c, lvV2}, {lvKeyC, lvV2}}
	oi := nondetRange("old-version", 0, 1)
	oldText := olds[oi]
	newText := news[oi][nondetRange("new-version", 0, 1)]
	if r.CompileAndRun(prog, strings.NewReader(oldText)) != nil {
		vAssert(false, "L.setup")
		return
	}
	oldH := r.handles[prog]
	if oldH == nil {
		vAssert(false, "L.setup")
		return
	}
	oldM := oldH.vm.Metrics[0]
	nsent := int64(0)
	send := func() {
		nsent++
		lines <- &logline.LogLine{Filename: "log", Line: "l"}
		vQuiesce()
	}
	for i := nondetRange("lines-before", 0, 1); i > 0; i-- {
		send()
	}
	vAssert(c20Count(oldM) == nsent, "C20.line-processed-once")

	// the reload, with a line arriving at a lock-release point or after it
	c20.armed, c20.sent, c20.point, c20.send = true, false, 0, send
	err = r.CompileAndRun(prog, strings.NewReader(newText))
	c20.armed = false
	vQuiesce()
	vAssert(err == nil, "C14.valid-source-loads")
	newH := r.handles[prog]
	if newH == nil || newH == oldH {
		vAssert(false, "C14.valid-source-loads")
		return
	}
	newM := newH.vm.Metrics[0]
	during := c20.sent
	if !c20.sent {
		c20.sent = true
		send()
	}
	afterOld, afterNew := c20Count(oldM), c20Count(newM)
	send() // one more line: the new version's
	kept := newText != lvV2
	if kept {
		// same declaration: the old label sets (and their data) carry over,
		// so both versions count into the same total
		exp := store.FindMetricOrNil("va", prog)
		vAssert(exp == newM, "C14.valid-source-loads")
		vAssert(c20Count(exp) == nsent, "C20.every-line-shows-in-the-kept-metric-exactly-once")
	} else {
		// different metrics: each line moved exactly one of them, and no line
		// went to the old version after one went to the new
		vAssert(c20Count(oldM)+c20Count(newM) == nsent, "C20.line-processed-by-exactly-one-version")
		vAssert(c20Count(oldM) == afterOld, "C20.old-version-gets-no-line-after-the-new-one-runs")
		vAssert(afterOld+afterNew == nsent-1, "C20.line-processed-by-exactly-one-version")
	}
	vAssert(lvClosed(oldH), "C14.replaced-version-is-stopped")
	vObserve("during", during)
	vObserve("points", c20.point)
	// shutdown: closing the input ends the dispatcher and every VM
	close(lines)
	vQuiesce()
	wg.Wait()
	vAssert(vBlockedGoroutines() == 0, "C20.everything-stops-when-the-input-ends")
}
