package runtime

import (
	"strconv"
	"strings"
	"sync"

	"github.com/google/mtail/internal/logline"
	"github.com/google/mtail/internal/metrics"
	"github.com/google/mtail/internal/metrics/datum"
)

// C20: lines reach each program exactly once, in order, across a reload.
//
// The real runtime (New: dispatcher goroutine, CompileAndRun, VM goroutines)
// runs one program; lines "1", "2", ... are sent on the real lines channel.
// One reload is made while lines arrive: the harness may send the next line at
// any point at which the reloading goroutine releases a lock of the runtime or
// of the store (handleMu, programErrorMu, insertMu, searchMu; verifYieldAny:
// called by the engine right after each such Unlock/RUnlock of the main
// goroutine, natively by a source rewrite of the same call sites), or after
// the reload.  A VM that has received a line may be delayed before it
// processes it (verifPreemptPoint at the entry of ProcessLogLine: the VM steps
// aside until the harness next waits for everything to settle, or until the
// reloading goroutine itself has to wait).  Otherwise the dispatcher and the
// VMs run until none can go on after every line.
// Every line must have been processed by exactly one version, old before new;
// a declaration kept by the reload must show every line's effect in the
// store, and a gauge must end with the last line's value.

var c20 struct {
	armed  bool
	sent   bool
	point  int
	delays int
	send   func()
}

func verifYieldAny() {
	if !c20.armed || c20.sent {
		return
	}
	c20.point++
	if nondetBool("line-arrives-here") {
		c20.sent = true
		c20.send()
	}
}

func verifPreemptPoint() {
	if c20.delays > 0 && nondetBool("vm-delayed-before-this-line") {
		c20.delays--
		vDelay()
	}
}

// c20Settle waits until dispatcher and VMs cannot go on; a delayed VM is let
// go first (natively: the delay ends 20 ms into this 60 ms wait).
func c20Settle() {
	vRelease()
	vQuiesce()
	vQuiesce()
	vQuiesce()
}

// c20Val reads the program's metric: the scalar datum or the "x" label set
// (a counter's count of lines, a gauge's last line number).
func c20Val(m *metrics.Metric) int64 {
	if m == nil {
		return 0
	}
	var lv *metrics.LabelValue
	m.RLock()
	if len(m.Keys) == 0 {
		lv = m.FindLabelValueOrNil(nil)
	} else {
		lv = m.FindLabelValueOrNil([]string{"x"})
	}
	m.RUnlock()
	if lv == nil {
		return 0
	}
	return datum.GetInt(lv.Value)
}

func HarnessC20Reload() {
	c20.armed, c20.sent, c20.point, c20.delays, c20.send = false, false, 0, 0, nil
	vClockFreeze()
	const prog = "p.mtail"
	store := metrics.NewStore()
	lines := make(chan *logline.LogLine)
	var wg sync.WaitGroup
	r, err := New(lines, &wg, "", store)
	if err != nil || r == nil {
		vAssert(false, "L.setup")
		return
	}
	olds := []string{lvV1, lvKeys, lvG1}
	news := [][]string{{lvV1c, lvV2}, {lvKeyC, lvV2}, {lvG1c, lvV2}}
	oi := nondetRange("old-version", 0, 2)
	oldText := olds[oi]
	newText := news[oi][nondetRange("new-version", 0, 1)]
	gauge := oi == 2
	// a second program that is never reloaded: it must see every line once
	// (loaded first: the engine's maps iterate in insertion order, so the
	// dispatcher offers each line to it before the reloaded program)
	if r.CompileAndRun("q.mtail", strings.NewReader(lvOth)) != nil || r.handles["q.mtail"] == nil {
		vAssert(false, "L.setup")
		return
	}
	qM := r.handles["q.mtail"].vm.Metrics[0]
	if r.CompileAndRun(prog, strings.NewReader(oldText)) != nil {
		vAssert(false, "L.setup")
		return
	}
	oldH := r.handles[prog]
	if oldH == nil {
		vAssert(false, "L.setup")
		return
	}
	oldM := oldH.vm.Metrics[0]
	c20.delays = vParam("delays", 1)
	nsent := int64(0)
	send := func() {
		nsent++
		lines <- &logline.LogLine{Filename: "log", Line: strconv.FormatInt(nsent, 10)}
		c20Settle()
	}
	for i := nondetRange("lines-before", 0, vParam("before", 1)); i > 0; i-- {
		send()
	}

	// a line may be in flight when the reload begins: handed to the
	// dispatcher, which may still be waiting for a held-back VM to take it
	inflight := nondetBool("line-in-flight-at-reload")
	if inflight {
		nsent++
		lines <- &logline.LogLine{Filename: "log", Line: strconv.FormatInt(nsent, 10)}
	}
	// the reload, with a line arriving at a lock-release point or after it
	c20.armed, c20.sent, c20.point, c20.send = !inflight, inflight, 0, send
	err = r.CompileAndRun(prog, strings.NewReader(newText))
	c20.armed = false
	c20Settle()
	vAssert(err == nil, "C14.valid-source-loads")
	newH := r.handles[prog]
	if newH == nil || newH == oldH {
		vAssert(false, "C14.valid-source-loads")
		return
	}
	newM := newH.vm.Metrics[0]
	during := c20.sent && !inflight
	if !c20.sent {
		c20.sent = true
		send()
	}
	send() // one more line: the new version's
	c20Settle()
	kept := newText != lvV2
	switch {
	case kept:
		// same declaration: the old label sets (and their data) carry over, so
		// both versions write the same datum: a counter counts every line, a
		// gauge ends with the last line's number
		exp := store.FindMetricOrNil("va", prog)
		vAssert(exp == newM, "C14.valid-source-loads")
		vAssert(c20Val(exp) == nsent, "C20.every-line-shows-in-the-kept-metric-once-and-in-order")
	case gauge:
		// the old version saw lines 1..k in order, the new one the rest
		vAssert(c20Val(oldM)+c20Val(newM) == nsent, "C20.line-processed-by-exactly-one-version-old-before-new")
	default:
		vAssert(c20Val(oldM)+c20Val(newM) == nsent, "C20.line-processed-by-exactly-one-version-old-before-new")
	}
	vAssert(c20Val(newM) >= 1 || kept, "C20.line-after-the-reload-goes-to-the-new-version")
	vAssert(c20Val(qM) == nsent, "C20.a-program-that-is-not-reloaded-sees-every-line-once")
	vAssert(lvClosed(oldH), "C14.replaced-version-is-stopped")
	vObserve("during", during)
	vObserve("points", c20.point)
	vObserve("delays-left", c20.delays)
	// shutdown: closing the input ends the dispatcher and every VM
	close(lines)
	c20Settle()
	wg.Wait()
	vAssert(vBlockedGoroutines() == 0, "C20.everything-stops-when-the-input-ends")
}
