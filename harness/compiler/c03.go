package compiler

import (
	"strings"

	"github.com/google/mtail/internal/runtime/code"
	"github.com/google/mtail/internal/runtime/compiler/checker"
	"github.com/google/mtail/internal/runtime/compiler/codegen"
	"github.com/google/mtail/internal/runtime/compiler/opt"
	"github.com/google/mtail/internal/runtime/compiler/parser"
)

// C03 (reduced): the compiler pipeline (parser.Parse, opt.Optimise,
// checker.Check, codegen.CodeGen - the body of Compiler.Compile) on a
// program template in which a few bytes are symbolic: it returns either an
// object or an error, never both and never neither, and never panics (a Go
// panic anywhere is reported by the engine); compiling the same text twice
// gives the same number of instructions, strings, patterns and metrics.

func c03Compile(src string) (*code.Object, error) {
	ast, err := parser.Parse("p", strings.NewReader(src))
	if err != nil {
		return nil, err
	}
	ast, err = opt.Optimise(ast)
	if err != nil {
		return nil, err
	}
	ast, err = checker.Check(ast, 1024, 100)
	if err != nil {
		return nil, err
	}
	ast, err = opt.Optimise(ast)
	if err != nil {
		return nil, err
	}
	return codegen.CodeGen("p", ast)
}

var c03Templates = []string{
	"counter c\nc++\n",
	"counter c by k\nc[\"x\"] = 1 + 2\n",
	"gauge g\ng = 3 * 4\n",
	"hidden gauge t\ncounter n as \"m\"\nt = timestamp()\nt > 1 {\n  n += 2\n} else {\n  n--\n}\n",
	"histogram h buckets 1, 2.5, 4\nh = 3.0\n",
	"counter d by a, b limit 2\nd[\"p\"][\"q\"]++\ndel d[\"p\"][\"q\"] after 1h\n",
	"text s\ns = tolower(\"AB\") + \"c\"\ngauge l\nl = len(\"abc\") ** 2 % 5\n",
	"counter c\n/foo/ {\n  c++\n} else {\n  c += 2\n}\notherwise {\n  c--\n}\n",
	"gauge g\nconst P /(?P<n>\\d+) (\\w+)/\n// + P + /$/ {\n  g = $n\n  strptime($2, \"2006\")\n}\n",
	"counter n\ndef d {\n  /x/ {\n    next\n  }\n}\n@d {\n  n++\n}\n",
	"gauge f\nf = 1.5 / 0.5 - int(\"7\")\nsettime(3)\nf < 2 && f >= 0 || f != 1 {\n  stop\n}\n",
}

func HarnessC03() {
	t := c03Templates[nondetRange("template", 0, vParam("ntemplates", len(c03Templates))-1)]
	b := []byte(t)
	// one arbitrary byte at any position; with nsym == 2 also the byte after it
	pos := nondetRange("pos", 0, len(b)-1)
	b[pos] = nondetByte("byte")
	if vParam("nsym", 1) == 2 && pos+1 < len(b) {
		// (two adjacent bytes: ASCII only - case mapping of symbolic
		// multi-byte letters is not modelled)
		b[pos+1] = nondetByte("byte")
		vAssume(b[pos] < 0x80 && b[pos+1] < 0x80)
	}
	src := string(b)
	obj, err := c03Compile(src)
	vAssert((obj != nil) != (err != nil), "C03.code-or-errors-never-both-never-neither")
	obj2, err2 := c03Compile(src)
	vAssert((obj2 != nil) == (obj != nil) && (err2 != nil) == (err != nil), "C03.same-source-same-outcome")
	if obj != nil && obj2 != nil {
		vAssert(len(obj.Program) == len(obj2.Program) && len(obj.Strings) == len(obj2.Strings) && len(obj.Regexps) == len(obj2.Regexps) && len(obj.Metrics) == len(obj2.Metrics), "C03.same-source-same-code")
		for i := range obj.Program {
			if i < len(obj2.Program) {
				vAssert(obj.Program[i].Opcode == obj2.Program[i].Opcode, "C03.same-source-same-code")
			}
		}
	}
	vObserve("ok", obj != nil)
}
