package compiler

import (
	"strings"

	"github.com/google/mtail/internal/runtime/code"
	"github.com/google/mtail/internal/runtime/compiler/checker"
	"github.com/google/mtail/internal/runtime/compiler/parser"
)

// C23 (reduced): formatting a program preserves its meaning.
//
// What mfmt does (parser.Parse, checker.Check, Unparser.Unparse) is applied to
// the C03 templates with one arbitrary byte at any position.  Whenever the
// checker accepts the perturbed program, the formatted text must be accepted
// too, formatting it again must give the same text, and both texts must
// compile to the same program: the same instructions and operands, strings,
// patterns, and metric declarations (kind, name, hidden flag, keys, limit,
// buckets).

func c23Format(src string) (string, bool) {
	ast, err := parser.Parse("p", strings.NewReader(src))
	if err != nil {
		return "", false
	}
	ast, err = checker.Check(ast, 0, 0)
	if err != nil {
		return "", false
	}
	up := parser.Unparser{}
	return up.Unparse(ast), true
}

func c23SameProgram(a, b *code.Object) bool {
	if len(a.Program) != len(b.Program) || len(a.Strings) != len(b.Strings) || len(a.Regexps) != len(b.Regexps) || len(a.Metrics) != len(b.Metrics) {
		return false
	}
	for i := range a.Program {
		if a.Program[i].Opcode != b.Program[i].Opcode || a.Program[i].Operand != b.Program[i].Operand {
			return false
		}
	}
	for i := range a.Strings {
		if a.Strings[i] != b.Strings[i] {
			return false
		}
	}
	for i := range a.Regexps {
		if a.Regexps[i].String() != b.Regexps[i].String() {
			return false
		}
	}
	for i := range a.Metrics {
		x, y := a.Metrics[i], b.Metrics[i]
		if x.Name != y.Name || x.Kind != y.Kind || x.Type != y.Type || x.Hidden != y.Hidden || x.Limit != y.Limit || len(x.Keys) != len(y.Keys) || len(x.Buckets) != len(y.Buckets) {
			return false
		}
		for j := range x.Keys {
			if x.Keys[j] != y.Keys[j] {
				return false
			}
		}
		for j := range x.Buckets {
			if x.Buckets[j] != y.Buckets[j] {
				return false
			}
		}
	}
	return true
}

func HarnessC23() {
	t := c03Templates[nondetRange("template", 0, vParam("ntemplates", len(c03Templates))-1)]
	b := []byte(t)
	if vParam("nsym", 1) >= 1 {
		pos := nondetRange("pos", 0, len(b)-1)
		b[pos] = nondetByte("byte")
	}
	src := string(b)
	out, ok := c23Format(src)
	vObserve("accepted", ok)
	if !ok {
		return
	}
	out2, ok2 := c23Format(out)
	vAssert(ok2, "C23.formatted-program-is-accepted")
	if !ok2 {
		return
	}
	vAssert(vStrEq(out, out2), "C23.formatting-again-yields-identical-text")
	o1, err1 := c03Compile(src)
	o2, err2 := c03Compile(out)
	vAssert((err1 == nil) == (err2 == nil), "C23.formatted-program-compiles-like-the-original")
	if o1 != nil && o2 != nil {
		vAssert(c23SameProgram(o1, o2), "C23.same-declarations-statements-and-expressions")
	}
}
