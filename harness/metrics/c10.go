package metrics

import (
	"time"

	"github.com/google/mtail/internal/metrics/datum"
)

// C10: one garbage-collection pass over a store whose metric holds n data
// with arbitrary timestamps and expiry marks, an arbitrary limit and an
// arbitrary clock.  The result must be explainable as: stage 1 removes
// exactly max(0, n-limit) data, none newer than any datum it keeps; stage 2
// removes, of the rest, exactly the data with expiry E > 0 whose age exceeds
// E.  Everything else is untouched.

const (
	c10ClockLo = int64(1000000000) * 1000000000 // 2001-09-09
	c10ClockHi = int64(7258118400) * 1000000000 // 2200-01-01
)

func c10Label(i int) string { return string(rune('a' + i)) }

// subsets of size k of {0..n-1}, as bitmasks
func c10Subsets(n, k int) []int {
	var out []int
	for mask := 0; mask < 1<<n; mask++ {
		c := 0
		for i := 0; i < n; i++ {
			if mask&(1<<i) != 0 {
				c++
			}
		}
		if c == k {
			out = append(out, mask)
		}
	}
	return out
}

func HarnessC10() {
	maxn := vParam("maxn", 3)
	n := nondetRange("n", 0, maxn)
	limit := nondetRange("limit", 0, maxn+1)
	s := NewStore()
	m := NewMetric("m", "prog", Counter, Int, "k")
	m.Limit = limit
	other := NewMetric("other", "prog", Gauge, Int, "k")
	if s.Add(other) != nil || s.Add(m) != nil {
		vAssert(false, "C10.setup")
		return
	}
	od, _ := other.GetDatum("x")
	datum.SetInt(od, 42, time.Unix(1, 0))

	times := make([]int64, n)
	exps := make([]int64, n)
	data := make([]datum.Datum, n)
	for i := 0; i < n; i++ {
		d, err := m.GetDatum(c10Label(i))
		if err != nil {
			vAssert(false, "C10.setup")
			return
		}
		t := nondetInt64("t")
		vAssume(t >= 0) // after 1970: Time.Sub cannot saturate below
		d.(*datum.Int).Time = t
		d.(*datum.Int).Value = int64(100 + i)
		e := nondetInt64("expiry")
		m.LabelValues[i].Expiry = time.Duration(e)
		times[i], exps[i], data[i] = t, e, d
	}
	now := nondetInt64("now")
	vAssume(now >= c10ClockLo)
	vAssume(now < c10ClockHi)
	vClockSet(now)
	err := s.Gc()
	vAssert(err == nil, "C10.gc-no-error")

	// what survived
	present := make([]bool, n)
	kept := 0
	for i := 0; i < n; i++ {
		lv := m.FindLabelValueOrNil([]string{c10Label(i)})
		present[i] = lv != nil
		if lv != nil {
			kept++
			vAssert(lv.Value == data[i], "C10.survivor-identity")
			vAssert(datum.GetInt(lv.Value) == int64(100+i), "C10.survivor-value")
			vAssert(int64(lv.Expiry) == exps[i], "C10.survivor-expiry")
		}
	}
	vObserve("kept", kept)
	vAssert(len(m.LabelValues) == kept, "C10.no-foreign-data")
	// survivors keep their relative order
	pos := 0
	for i := 0; i < n; i++ {
		if present[i] {
			if pos < len(m.LabelValues) {
				vAssert(m.LabelValues[pos].Labels[0] == c10Label(i), "C10.survivor-order")
			}
			pos++
		}
	}
	// stage explanation
	k := 0
	if limit > 0 && n > limit {
		k = n - limit
	}
	if limit > 0 && n > limit {
		vAssert(kept <= limit, "C10.at-most-limit")
	}
	explained := false
	for _, r1 := range c10Subsets(n, k) {
		ok := true
		for i := 0; i < n; i++ {
			in1 := r1&(1<<i) != 0
			if in1 {
				if present[i] {
					ok = false
				}
				// no newer than every datum kept by stage 1
				for j := 0; j < n; j++ {
					if r1&(1<<j) == 0 {
						ok = vAnd(ok, times[i] <= times[j])
					}
				}
			} else {
				expired := vAnd(exps[i] > 0, now-times[i] > exps[i])
				if present[i] {
					ok = vAnd(ok, !expired)
				} else {
					ok = vAnd(ok, expired)
				}
			}
		}
		explained = vOr(explained, ok)
	}
	vAssert(explained, "C10.removed-set-is-limit-then-expiry")
	// nothing else in the store changed
	vAssert(len(other.LabelValues) == 1 && other.LabelValues[0].Value == od && datum.GetInt(od) == 42, "C10.other-metric-untouched")
	vAssert(len(s.Metrics) == 2 && len(s.Metrics["m"]) == 1 && s.Metrics["m"][0] == m, "C10.store-shape")
	vAssert(vLockFree(&m.RWMutex), "C10.metric-unlocked")
}
