package metrics

import (
	"time"

	"github.com/google/mtail/internal/metrics/datum"
)

// C09 (interference): every metric operation is atomic with respect to the
// metric's lock.  Operation A runs on a populated metric; at every point at
// which A releases the metric's lock (verifYieldPoint: called by the engine
// right after each Unlock/RUnlock of a Metric's RWMutex, natively by a source
// rewrite of the same call sites) the solver may let a second operation B run
// to completion.  Whatever the yield point, the results of A and B and the
// final metric must be those of A;B or of B;A on the association-list oracle.

type c09iOp struct {
	idx    int
	kind   int // 0 get-or-create, 1 delete, 2 expiry mark
	t      []string
	expiry time.Duration
	d      datum.Datum // result of a get
	err    error
}

var c09i struct {
	m     *Metric
	armed bool
	done  bool
	inter bool
	b     *c09iOp
}

func c09iRun(m *Metric, op *c09iOp) {
	switch op.kind {
	case 0:
		op.d, op.err = m.GetDatum(op.t...)
	case 1:
		op.err = m.RemoveDatum(op.t...)
	case 2:
		op.err = m.ExpireDatum(op.expiry, op.t...)
	}
}

func verifYieldPoint() {
	if !c09i.armed || c09i.done {
		return
	}
	if nondetBool("yield") {
		c09i.done, c09i.inter = true, true
		c09iRun(c09i.m, c09i.b)
	}
}

// c09iApply runs op on the oracle; a created entry carries the creating op in
// by (its datum is whatever fresh datum the real code made).
type c09iEntry struct {
	labels []string
	d      datum.Datum
	by     *c09iOp
	expiry time.Duration
}

type c09iState struct {
	e    []*c09iEntry
	errs [2]bool // op -> returned an error
	got  [2]*c09iEntry
}

func (s *c09iState) find(t []string) int {
	for i, en := range s.e {
		if tupleEq(en.labels, t) {
			return i
		}
	}
	return -1
}

func (s *c09iState) apply(op *c09iOp) {
	i := s.find(op.t)
	switch op.kind {
	case 0:
		if i < 0 {
			s.e = append(s.e, &c09iEntry{labels: op.t, by: op})
			i = len(s.e) - 1
		}
		s.got[op.idx] = s.e[i]
		s.errs[op.idx] = false
	case 1:
		if i >= 0 {
			s.e = append(s.e[:i:i], s.e[i+1:]...)
		}
		s.errs[op.idx] = false
	case 2:
		if i >= 0 {
			// entries are shared between the two candidate orders only
			// through the pre-state: copy before writing
			c := *s.e[i]
			c.expiry = op.expiry
			for j, en := range s.got {
				if en == s.e[i] {
					s.got[j] = &c
				}
			}
			s.e[i] = &c
		}
		s.errs[op.idx] = i < 0
	}
}

func c09iMatches(m *Metric, s *c09iState, pre []*c09iEntry, a, b *c09iOp) bool {
	if (a.err != nil) != s.errs[a.idx] || (b.err != nil) != s.errs[b.idx] {
		return false
	}
	if len(m.LabelValues) != len(s.e) {
		return false
	}
	fresh := func(d datum.Datum) bool {
		if d == nil {
			return false
		}
		for _, p := range pre {
			if p.d == d {
				return false
			}
		}
		return true
	}
	for i, lv := range m.LabelValues {
		en := s.e[i]
		if !tupleEq(lv.Labels, en.labels) || lv.Expiry != en.expiry {
			return false
		}
		if en.by == nil {
			if lv.Value != en.d {
				return false
			}
		} else if !fresh(lv.Value) || lv.Value != en.by.d {
			// created by op: the live datum is the one that op was given
			return false
		}
	}
	// what a get returned: the datum of the entry it found or made
	for _, op := range []*c09iOp{a, b} {
		if op.kind != 0 {
			continue
		}
		en := s.got[op.idx]
		if en.by == nil {
			if op.d != en.d {
				return false
			}
		} else if op.d != en.by.d || !fresh(op.d) {
			return false
		}
	}
	return true
}

func c09iOpOf(tag string, arity, maxLen int) *c09iOp {
	op := &c09iOp{kind: nondetRange(tag+".kind", 0, 2)}
	op.t = c09Tuple(tag, arity, maxLen)
	if op.kind == 2 {
		op.expiry = time.Duration(nondetInt64(tag + ".expiry"))
	}
	return op
}

func HarnessC09Interfere() {
	arity := vParam("arity", 1)
	maxLen := vParam("maxlen", 1)
	npre := vParam("npre", 2)
	keys := make([]string, arity)
	for i := range keys {
		keys[i] = string(rune('k' + i))
	}
	m := NewMetric("m", "prog", Counter, Int, keys...)
	var pre []*c09iEntry
	o := &c09Oracle{}
	for i := 0; i < npre; i++ {
		t := c09Tuple("p", arity, maxLen)
		d, err := m.GetDatum(t...)
		vAssert(err == nil && d != nil, "C09.get-ok")
		if o.find(t) < 0 {
			o.e = append(o.e, &c09Entry{labels: t, d: d})
			pre = append(pre, &c09iEntry{labels: t, d: d})
		}
	}
	c09Invariant(m, o)
	a := c09iOpOf("a", arity, maxLen)
	b := c09iOpOf("b", arity, maxLen)
	b.idx = 1
	c09i.m, c09i.b, c09i.done, c09i.inter, c09i.armed = m, b, false, false, true
	c09iRun(m, a)
	c09i.armed = false
	if !c09i.done {
		c09iRun(m, b)
	}
	mk := func() *c09iState {
		return &c09iState{e: append([]*c09iEntry{}, pre...)}
	}
	ab, ba := mk(), mk()
	ab.apply(a)
	ab.apply(b)
	ba.apply(b)
	ba.apply(a)
	ok := c09iMatches(m, ab, pre, a, b) || c09iMatches(m, ba, pre, a, b)
	vAssert(ok, "C09.interfere-linearizable")
	// slice and index agree whatever happened
	vAssert(len(m.labelValuesMap) == len(m.LabelValues), "C09.index-size")
	for _, lv := range m.LabelValues {
		vAssert(m.labelValuesMap[buildLabelValueKey(lv.Labels)] == lv, "C09.index-agrees")
	}
	vObserve("live", len(m.LabelValues))
	vObserve("interleaved", c09i.inter)
}
