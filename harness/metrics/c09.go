package metrics

import (
	"time"

	"github.com/google/mtail/internal/metrics/datum"
)

// C09: a metric behaves as an insertion-ordered map from label tuples to
// (datum, expiry).  Bounded model checking of every operation sequence of
// length <= nops from the empty metric, all label bytes symbolic, against an
// association-list oracle kept by the harness.

type c09Entry struct {
	labels []string
	d      datum.Datum
	expiry time.Duration
}

type c09Oracle struct{ e []*c09Entry }

func (o *c09Oracle) find(t []string) int {
	for i, en := range o.e {
		if tupleEq(en.labels, t) { // forks on symbolic equality
			return i
		}
	}
	return -1
}

func c09Tuple(tag string, arity, maxLen int) []string {
	t := make([]string, arity)
	for i := range t {
		t[i] = symLabel(tag, maxLen)
	}
	return t
}

// c09Invariant: slice and index agree.
func c09Invariant(m *Metric, o *c09Oracle) {
	vAssert(len(m.LabelValues) == len(o.e), "C09.size")
	vAssert(len(m.labelValuesMap) == len(m.LabelValues), "C09.index-size")
	if len(m.LabelValues) != len(o.e) {
		return
	}
	for i, lv := range m.LabelValues {
		vAssert(m.labelValuesMap[buildLabelValueKey(lv.Labels)] == lv, "C09.index-agrees")
		vAssert(tupleEq(lv.Labels, o.e[i].labels), "C09.order-and-labels")
		vAssert(lv.Value == o.e[i].d, "C09.datum-identity")
		vAssert(lv.Expiry == o.e[i].expiry, "C09.expiry")
	}
}

// c09Emit enumerates the metric through the real EmitLabelSets and compares
// with the oracle: each live tuple once, in order, with its datum.
func c09Emit(m *Metric, o *c09Oracle, keys []string, arity int) int {
	c := make(chan *LabelSet)
	go m.EmitLabelSets(c)
	n := 0
	for ls := range c {
		vAssert(n < len(o.e), "C09.emit-count")
		if n < len(o.e) {
			vAssert(ls.Datum == o.e[n].d, "C09.emit-datum")
			vAssert(len(ls.Labels) == arity, "C09.emit-arity")
			for i, k := range keys {
				vAssert(ls.Labels[k] == o.e[n].labels[i], "C09.emit-labels")
			}
		}
		n++
	}
	vAssert(n == len(o.e), "C09.emit-count")
	return n
}

func HarnessC09Seq() {
	arity := vParam("arity", 1)
	maxLen := vParam("maxlen", 1)
	nops := vParam("nops", 3)
	typ := Type(vParam("type", int(Int)))
	keys := make([]string, arity)
	for i := range keys {
		keys[i] = string(rune('k' + i))
	}
	kind := Counter
	if typ == Buckets {
		kind = Histogram
	}
	m := NewMetric("m", "prog", kind, typ, keys...)
	if typ == Buckets {
		m.Buckets = []datum.Range{{0, 1}, {1, 2}}
	}
	o := &c09Oracle{}
	if vParam("preemit", 0) == 1 {
		// a populated metric that has already been enumerated once
		t := c09Tuple("t", arity, maxLen)
		d, err := m.GetDatum(t...)
		vAssert(err == nil && d != nil, "C09.get-ok")
		o.e = append(o.e, &c09Entry{labels: t, d: d})
		c09Emit(m, o, keys, arity)
	}
	for step := 0; step < nops; step++ {
		op := nondetRange("op", 0, 6)
		switch op {
		case 0: // lookup-or-create
			t := c09Tuple("t", arity, maxLen)
			d, err := m.GetDatum(t...)
			vAssert(err == nil && d != nil, "C09.get-ok")
			if i := o.find(t); i >= 0 {
				vAssert(d == o.e[i].d, "C09.get-existing-same-datum")
			} else {
				for _, en := range o.e {
					vAssert(d != en.d, "C09.get-new-is-fresh")
				}
				o.e = append(o.e, &c09Entry{labels: t, d: d})
				switch typ {
				case Int:
					_, ok := d.(*datum.Int)
					vAssert(ok, "C09.datum-type")
				case Float:
					_, ok := d.(*datum.Float)
					vAssert(ok, "C09.datum-type")
				case String:
					_, ok := d.(*datum.String)
					vAssert(ok, "C09.datum-type")
				case Buckets:
					_, ok := d.(*datum.Buckets)
					vAssert(ok, "C09.datum-type")
				}
			}
		case 1: // delete
			t := c09Tuple("t", arity, maxLen)
			err := m.RemoveDatum(t...)
			vAssert(err == nil, "C09.remove-ok")
			if i := o.find(t); i >= 0 {
				o.e = append(o.e[:i:i], o.e[i+1:]...)
			}
		case 2: // expiry mark
			t := c09Tuple("t", arity, maxLen)
			exp := time.Duration(nondetInt64("expiry"))
			err := m.ExpireDatum(exp, t...)
			if i := o.find(t); i >= 0 {
				vAssert(err == nil, "C09.expire-present-ok")
				o.e[i].expiry = exp
			} else {
				vAssert(err != nil, "C09.expire-absent-is-error")
			}
		case 3: // wrong length tuples are rejected without changing anything
			t := c09Tuple("t", arity+1, maxLen)
			d, err := m.GetDatum(t...)
			vAssert(err != nil && d == nil, "C09.get-wrong-length-rejected")
			vAssert(m.RemoveDatum(t...) != nil, "C09.remove-wrong-length-rejected")
			vAssert(m.ExpireDatum(time.Second, t...) != nil, "C09.expire-wrong-length-rejected")
		case 4: // value update through the datum (Int metrics)
			if typ == Int && len(o.e) > 0 {
				i := nondetRange("which", 0, len(o.e)-1)
				datum.IncIntBy(o.e[i].d, nondetInt64("delta"), time.Unix(5, 0))
			}
		case 6: // enumerate in the middle of the history
			c09Emit(m, o, keys, arity)
		case 5: // find without creating
			t := c09Tuple("t", arity, maxLen)
			lv := m.FindLabelValueOrNil(t)
			if i := o.find(t); i >= 0 {
				vAssert(lv != nil && lv.Value == o.e[i].d, "C09.find-present")
			} else {
				vAssert(lv == nil, "C09.find-absent")
			}
		}
		c09Invariant(m, o)
	}
	n := c09Emit(m, o, keys, arity)
	vObserve("live", n)
	vAssert(vBlockedGoroutines() == 0, "C09.emit-terminates")
}
