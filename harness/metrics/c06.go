package metrics

import (
	"time"

	"github.com/google/mtail/internal/metrics/datum"
)

// C06 / C14 (store part): Store.Add as one inductive step from an arbitrary
// valid store.  The store holds two metrics whose name, program, kind, type,
// source and keys are chosen by the solver/forking from small alphabets, each
// with up to two label values holding symbolic values and expiry marks.  One
// new metric of program "p" is added.

type c06Spec struct {
	name, prog, source string
	kind               Kind
	typ                Type
	nkeys              int
}

func c06Choose(tag string, fixProg string) c06Spec {
	var sp c06Spec
	if tag == "new" && vParam("small", 1) == 1 {
		sp.name = "a" // the two names are symmetric
	} else {
		sp.name = []string{"a", "b"}[nondetRange(tag+".name", 0, 1)]
	}
	if fixProg != "" {
		sp.prog = fixProg
	} else {
		sp.prog = []string{"p", "q"}[nondetRange(tag+".prog", 0, 1)]
	}
	sp.kind = []Kind{Counter, Gauge}[nondetRange(tag+".kind", 0, 1)]
	sp.typ = []Type{Int, Float}[nondetRange(tag+".type", 0, 1)]
	sp.source = []string{"s1", "s2"}[nondetRange(tag+".source", 0, 1)]
	sp.nkeys = nondetRange(tag+".nkeys", 1, 2)
	return sp
}

func c06Keys(n int) []string { return []string{"k", "j"}[:n] }

func c06Labels(n, i int) []string {
	l := []string{string(rune('x' + i)), "y"}
	return l[:n]
}

func c06Make(sp c06Spec, tag string, nlv int) *Metric {
	m := NewMetric(sp.name, sp.prog, sp.kind, sp.typ, c06Keys(sp.nkeys)...)
	m.Source = sp.source
	for i := 0; i < nlv; i++ {
		d, err := m.GetDatum(c06Labels(sp.nkeys, i)...)
		if err != nil {
			vAssert(false, "C06.setup")
		}
		switch sp.typ {
		case Int:
			datum.SetInt(d, nondetInt64(tag+".val"), time.Unix(1, 0))
		case Float:
			datum.SetFloat(d, nondetFloat64(tag+".fval"), time.Unix(1, 0))
		}
		m.LabelValues[i].Expiry = time.Duration(nondetInt64(tag + ".expiry"))
	}
	return m
}

type c06Snap struct {
	m      *Metric
	lvs    []*LabelValue
	data   []datum.Datum
	expiry []time.Duration
}

func c06Snapshot(m *Metric) c06Snap {
	s := c06Snap{m: m}
	for _, lv := range m.LabelValues {
		s.lvs = append(s.lvs, lv)
		s.data = append(s.data, lv.Value)
		s.expiry = append(s.expiry, lv.Expiry)
	}
	return s
}

func c06Unchanged(s c06Snap, id string) {
	vAssert(len(s.m.LabelValues) == len(s.lvs), id)
	if len(s.m.LabelValues) != len(s.lvs) {
		return
	}
	for i, lv := range s.m.LabelValues {
		vAssert(lv == s.lvs[i] && lv.Value == s.data[i] && lv.Expiry == s.expiry[i], id)
	}
}

func c06InStore(s *Store, m *Metric) bool {
	for _, x := range s.Metrics[m.Name] {
		if x == m {
			return true
		}
	}
	return false
}

func c06SameKeys(a, b c06Spec) bool { return a.nkeys == b.nkeys }

func HarnessC06Add() {
	s := NewStore()
	small := vParam("small", 1) == 1
	var e1, e2 c06Spec
	if small {
		// quick tier: one metric of the reloading program, one of another
		e1 = c06Choose("e1", "p")
		e2 = c06Choose("e2", "q")
		vAssume(e2.source == "s1" && e2.nkeys == 1)
	} else {
		e1 = c06Choose("e1", "")
		e2 = c06Choose("e2", "")
	}
	// representation invariant of a valid store: metrics under one name share
	// a kind; one program does not hold two metrics with the same name
	if e1.name == e2.name {
		vAssume(e1.kind == e2.kind)
		vAssume(e1.prog != e2.prog)
	}
	n1 := nondetRange("e1.nlv", 0, 2)
	n2 := nondetRange("e2.nlv", 0, 2)
	if small {
		vAssume(n1 != 1 && n2 != 0)
	}
	m1 := c06Make(e1, "e1", n1)
	m2 := c06Make(e2, "e2", n2)
	if small && nondetRange("order", 0, 1) == 1 {
		// the other program's metric was registered first
		s.Metrics[e2.name] = append(s.Metrics[e2.name], m2)
		s.Metrics[e1.name] = append(s.Metrics[e1.name], m1)
	} else {
		s.Metrics[e1.name] = append(s.Metrics[e1.name], m1)
		s.Metrics[e2.name] = append(s.Metrics[e2.name], m2)
	}
	olds := []*Metric{m1, m2}
	specs := []c06Spec{e1, e2}
	snaps := []c06Snap{c06Snapshot(m1), c06Snapshot(m2)}

	nw := c06Choose("new", "p")
	m := c06Make(nw, "new", nondetRange("new.nlv", 0, 1))
	newOwn := c06Snapshot(m)

	err := s.Add(m)

	// the only permitted refusal: the name is in use with a different kind
	conflict := false
	for i := range olds {
		if specs[i].name == nw.name && specs[i].kind != nw.kind {
			conflict = true
		}
	}
	vAssert((err != nil) == conflict, "C06.refused-iff-kind-conflict")
	if err != nil {
		// a refused Add leaves the store exactly as it was
		vAssert(!c06InStore(s, m), "C14.failed-add-not-registered")
		for i := range olds {
			vAssert(c06InStore(s, olds[i]), "C14.failed-add-store-unchanged")
			c06Unchanged(snaps[i], "C14.failed-add-store-unchanged")
		}
		vAssert(vLockFree(&s.searchMu) && vLockFree(&s.insertMu), "C06.store-unlocked-after-refusal")
		return
	}
	vAssert(c06InStore(s, m), "C06.added")
	vAssert(vLockFree(&s.searchMu) && vLockFree(&s.insertMu), "C06.store-unlocked")
	for i := range olds {
		o := olds[i]
		if specs[i].prog != "p" {
			// metrics of other programs: same object, same data
			vAssert(c06InStore(s, o), "C06.other-program-metric-kept")
			c06Unchanged(snaps[i], "C06.other-program-metric-untouched")
			for _, lv := range m.LabelValues {
				for _, d := range snaps[i].data {
					vAssert(lv.Value != d, "C06.no-datum-shared-across-programs")
				}
			}
			continue
		}
		// same program
		if specs[i].name != nw.name {
			vAssert(c06InStore(s, o), "C14.other-declaration-kept")
			c06Unchanged(snaps[i], "C14.other-declaration-untouched")
			continue
		}
		// a re-declaration of (name, program): the old metric must be gone,
		// whatever changed about it, or the export holds duplicate series
		vKnown("C14-duplicate-after-type-or-source-change", specs[i].typ != nw.typ || specs[i].source != nw.source)
		vAssert(!c06InStore(s, o), "C14.redeclared-metric-replaced-not-duplicated")
		kept := specs[i].typ == nw.typ && specs[i].source == nw.source && c06SameKeys(specs[i], nw)
		if kept {
			// same kind, name, type, keys, place: values and pending expiry survive
			for j := range snaps[i].lvs {
				lv := m.FindLabelValueOrNil(snaps[i].lvs[j].Labels)
				vAssert(lv != nil, "C14.kept-declaration-keeps-label-sets")
				if lv != nil {
					vAssert(lv.Value == snaps[i].data[j], "C14.kept-declaration-keeps-values")
					vAssert(lv.Expiry == snaps[i].expiry[j], "C14.kept-declaration-keeps-expiry")
				}
			}
			// no label set listed twice
			for a := range m.LabelValues {
				for b := a + 1; b < len(m.LabelValues); b++ {
					vAssert(!tupleEqConc(m.LabelValues[a].Labels, m.LabelValues[b].Labels), "C14.no-duplicate-label-set")
				}
			}
		} else if !c06SameKeys(specs[i], nw) {
			// incompatible keys: old data dropped, the new metric keeps its own
			c06Unchanged(newOwn, "C14.changed-keys-drop-old-data")
		}
	}
	// lookups never cross programs
	for _, name := range []string{"a", "b"} {
		for _, prog := range []string{"p", "q"} {
			if f := s.FindMetricOrNil(name, prog); f != nil {
				vAssert(f.Name == name && f.Program == prog, "C06.find-never-crosses-programs")
			}
		}
	}
	n := 0
	for _, ml := range s.Metrics {
		n += len(ml)
	}
	vObserve("metrics", n)
}

func tupleEqConc(a, b []string) bool {
	if len(a) != len(b) {
		return false
	}
	for i := range a {
		if a[i] != b[i] {
			return false
		}
	}
	return true
}
