package metrics

import (
	"time"

	"github.com/google/mtail/internal/metrics/datum"
)

// C08: distinct label tuples name distinct data.

func symLabel(tag string, maxLen int) string {
	n := nondetRange(tag+".len", 0, maxLen)
	b := make([]byte, n)
	for i := range b {
		b[i] = nondetByte(tag)
	}
	return string(b)
}

func tupleEq(a, b []string) bool {
	eq := true
	for i := range a {
		eq = vAnd(eq, vStrEq(a[i], b[i]))
	}
	return eq
}

// HarnessC08Key: buildLabelValueKey is injective on tuples of equal arity.
func HarnessC08Key() {
	arity := vParam("arity", 2)
	maxLen := vParam("maxlen", 2)
	a := make([]string, arity)
	b := make([]string, arity)
	for i := 0; i < arity; i++ {
		a[i] = symLabel("a", maxLen)
	}
	for i := 0; i < arity; i++ {
		b[i] = symLabel("b", maxLen)
	}
	ka := buildLabelValueKey(a)
	kb := buildLabelValueKey(b)
	vAssert(vImplies(vStrEq(ka, kb), tupleEq(a, b)), "C08.key-injective")
}

// HarnessC08Prefix: the prefix-code lemma.  enc(l) = escape(l)+"-".  If
// enc(a) is a prefix of enc(b)+rest for arbitrary rest then a == b.  With
// it, injectivity for any arity follows by induction on the tuple.
func HarnessC08Prefix() {
	maxLen := vParam("maxlen", 3)
	a := symLabel("a", maxLen)
	b := symLabel("b", maxLen)
	ea := buildLabelValueKey([]string{a})
	eb := buildLabelValueKey([]string{b})
	// rest: up to 2 arbitrary bytes following enc(b), enough to cover the
	// longest possible enc(a) overhang for these lengths is checked by the
	// length condition below.
	rest := symLabel("rest", 2*maxLen+1)
	s := eb + rest
	if len(ea) > len(s) {
		return
	}
	vAssert(vImplies(vStrEq(s[:len(ea)], ea), vStrEq(a, b)), "C08.prefix-code")
}

// HarnessC08Metric: on a real Metric, two tuples address the same datum iff
// they are equal; remove/expire of one does not touch the other.
func HarnessC08Metric() {
	arity := vParam("arity", 2)
	maxLen := vParam("maxlen", 1)
	keys := make([]string, arity)
	for i := range keys {
		keys[i] = string(rune('k' + i))
	}
	m := NewMetric("m", "prog", Counter, Int, keys...)
	a := make([]string, arity)
	b := make([]string, arity)
	for i := 0; i < arity; i++ {
		a[i] = symLabel("a", maxLen)
	}
	for i := 0; i < arity; i++ {
		b[i] = symLabel("b", maxLen)
	}
	same := tupleEq(a, b)
	da, err := m.GetDatum(a...)
	vAssert(err == nil, "C08.getdatum-ok")
	datum.SetInt(da, 7, time.Unix(1, 0))
	db, err := m.GetDatum(b...)
	vAssert(err == nil, "C08.getdatum-ok")
	vAssert(vImplies(da == db, same), "C08.same-datum-implies-equal")
	vAssert(vImplies(same, da == db), "C08.equal-implies-same-datum")
	op := nondetRange("op", 0, 1)
	if op == 0 {
		// expiring a must not mark b unless equal
		if err := m.ExpireDatum(5*time.Second, a...); err != nil {
			vAssert(false, "C08.expire-existing-ok")
		}
		lvb := m.FindLabelValueOrNil(b)
		vAssert(lvb != nil, "C08.find-after-expire")
		if lvb != nil {
			vAssert(vImplies(lvb.Expiry != 0, same), "C08.expire-untouched")
		}
	} else {
		if err := m.RemoveDatum(a...); err != nil {
			vAssert(false, "C08.remove-ok")
		}
		lvb := m.FindLabelValueOrNil(b)
		vAssert(vImplies(lvb == nil, same), "C08.remove-untouched")
		vAssert(vImplies(same, lvb == nil), "C08.remove-removes")
	}
}
