package exporter

import "sync"

// c11Run (native): the two operations run concurrently; the test binary is
// built with the race detector, which reports any unordered conflicting
// accesses whatever the actual timing.
func c11Run(w *c11World, a, b func(), bFirst bool) bool {
	var wg sync.WaitGroup
	start := make(chan struct{})
	wg.Add(2)
	go func() { defer wg.Done(); <-start; a() }()
	go func() { defer wg.Done(); <-start; b() }()
	close(start)
	wg.Wait()
	return true
}
