package exporter

import (
	"context"
	"errors"
	"math"
	"net/http"
	"time"

	"github.com/google/mtail/internal/metrics"
	"github.com/google/mtail/internal/metrics/datum"
	"github.com/prometheus/client_golang/prometheus"
)

// C12: no export attempt leaves metrics locked or helper goroutines blocked.
// C13: the Prometheus collector emits exactly one faithful sample per
// representable label set of every non-text metric.
// C22: (see c22.go) per-label-set formatters.

type c12Metric struct {
	m      *metrics.Metric
	labels [][]string
	ival   []int64
	fval   []float64
	tns    []int64
}

func c12Label(tag string) string {
	n := nondetRange(tag+".len", 0, 1)
	b := make([]byte, n)
	for i := range b {
		b[i] = nondetByte(tag)
	}
	return string(b)
}

// c12Store builds a store of nm metrics chosen from every kind/type, 0..1
// keys, 0..2 label sets with symbolic values, timestamps and label bytes.
// promKeys: the key is either representable as a Prometheus label name or not.
func c12Store(nm int, symLabels, promKeys bool) (*metrics.Store, []*c12Metric) {
	s := metrics.NewStore()
	var out []*c12Metric
	firstKind := 0
	for i := 0; i < nm; i++ {
		which := firstKind
		if i == 0 || vParam("samename", 0) != 1 {
			// (metrics sharing a name share a kind: the store refuses others)
			which = nondetRange("kind", 0, 5)
			firstKind = which
		}
		kind := []metrics.Kind{metrics.Counter, metrics.Gauge, metrics.Timer, metrics.Text, metrics.Histogram, metrics.Counter}[which]
		typ := []metrics.Type{metrics.Int, metrics.Float, metrics.Int, metrics.String, metrics.Buckets, metrics.Float}[which]
		nkeys := nondetRange("nkeys", 0, 1)
		var keys []string
		if nkeys == 1 {
			keys = []string{"key-a"}
			if promKeys {
				// a label name the Prometheus client accepts, or one it
				// refuses (every label set of that metric is unrepresentable)
				keys = []string{[]string{"key_a", "key-a"}[nondetRange("keyname", 0, 1)]}
			}
		}
		name, prog := "met-ric"+string(rune('0'+i)), "prog"
		if vParam("samename", 0) == 1 {
			// the same metric name declared by different programs, each with
			// its own key (the exposition groups them into one family)
			name, prog = "met-ric", "prog"+string(rune('0'+i))
			if nkeys == 1 && i > 0 {
				keys = []string{"key_b"}
			}
		}
		m := metrics.NewMetric(name, prog, kind, typ, keys...)
		m.Source = "src:1"
		if kind == metrics.Histogram {
			m.Buckets = []datum.Range{{0, 1}, {1, 2}, {2, math.Inf(1)}}
		}
		cm := &c12Metric{m: m}
		maxlv := vParam("maxlv", 2)
		if nkeys == 0 && maxlv > 1 {
			maxlv = 1
		}
		nlv := nondetRange("nlv", 0, maxlv)
		for j := 0; j < nlv; j++ {
			var lab []string
			if nkeys == 1 {
				if symLabels {
					lab = []string{c12Label("label")}
				} else {
					lab = []string{string(rune('x' + j))} // x, y, z
				}
			}
			// distinct label sets only (a second GetDatum of the same tuple
			// would return the first datum)
			for q := 0; q < j && nkeys == 1; q++ {
				vAssume(lab[0] != cm.labels[q][0])
			}
			d, err := m.GetDatum(lab...)
			if err != nil {
				vAssert(false, "C12.setup")
			}
			t := nondetInt64("time")
			vAssume(t >= 0)
			var iv int64
			var fv float64
			switch x := d.(type) {
			case *datum.Int:
				iv = nondetInt64("ival")
				x.Value, x.Time = iv, t
			case *datum.Float:
				fv = nondetFloat64("fval")
				x.Set(fv, time.Unix(1, 0))
				x.Time = t
			case *datum.String:
				x.Set("text", time.Unix(1, 0))
				x.Time = t
			case *datum.Buckets:
				for o := 0; o < 2; o++ {
					x.Observe(nondetFloat64("obs"), time.Unix(1, 0))
				}
				x.Time = t
			}
			cm.labels = append(cm.labels, lab)
			cm.ival = append(cm.ival, iv)
			cm.fval = append(cm.fval, fv)
			cm.tns = append(cm.tns, t)
		}
		if s.Add(m) != nil {
			vAssert(false, "C12.setup")
		}
		out = append(out, cm)
	}
	return s, out
}

// c12After: every metric is unlocked, no helper goroutine is left, and a
// further update and export complete.
func c12After(s *metrics.Store, ms []*c12Metric, id string) {
	vAssert(vBlockedGoroutines() == 0, id+".no-goroutine-left-blocked")
	free := true
	for _, cm := range ms {
		if !vLockFree(&cm.m.RWMutex) {
			free = false
		}
	}
	vAssert(free, id+".metrics-unlocked")
	if !free {
		return
	}
	// subsequent line processing completes
	for _, cm := range ms {
		if len(cm.m.Keys) == 0 {
			_, err := cm.m.GetDatum()
			vAssert(err == nil, id+".update-after-export")
		} else {
			_, err := cm.m.GetDatum("later")
			vAssert(err == nil, id+".update-after-export")
		}
	}
}

var c12Faults int

// Concurrent line processing: at one solver-chosen point of an export (a
// constructor call or a write) a line-processing goroutine asks for a datum
// of the metric, i.e. queues on its write lock, and the export goes on with
// that writer waiting.
var (
	c12WriterMetric  *metrics.Metric
	c12WriterStarted bool
)

func c12WriterArm(ms []*c12Metric) {
	c12WriterMetric, c12WriterStarted = nil, false
	if vParam("writer", 0) == 1 && len(ms) > 0 {
		c12WriterMetric = ms[0].m
	}
}

func c12WriterPoint() {
	m := c12WriterMetric
	if m == nil || c12WriterStarted {
		return
	}
	if !vFault("line-processing-queues-on-the-metric") {
		return
	}
	c12WriterStarted = true
	go func() {
		if len(m.Keys) == 0 {
			m.GetDatum()
		} else {
			m.GetDatum("queued")
		}
	}()
	c12AwaitQueued(m)
}

// HarnessC12Prom: Collect with the client-library constructors failing at
// solver-chosen calls (C12), and the emitted samples compared with the store
// (C13).
func HarnessC12Prom() {
	nm := vParam("nmetrics", 1)
	s, ms := c12Store(nm, vParam("symlabels", 1) == 1, true)
	e := &Exporter{store: s, omitProgLabel: nondetBool("omitProg"), emitTimestamp: nondetBool("emitTS")}
	c := make(chan prometheus.Metric, 16)
	c12WriterArm(ms)
	e.Collect(c)
	c12WriterMetric = nil
	var got []prometheus.Metric
	for len(c) > 0 {
		got = append(got, <-c)
	}
	// C13: each emitted sample is the faithful image of exactly one label
	// set; nothing is emitted twice; what is missing is accounted for by
	// refused constructor calls only.
	expected := 0
	used := make([]bool, 0)
	type exp struct {
		cm *c12Metric
		j  int
	}
	var exps []exp
	for _, cm := range ms {
		if cm.m.Kind == metrics.Text {
			continue
		}
		for j := range cm.labels {
			exps = append(exps, exp{cm, j})
			used = append(used, false)
			expected++
		}
	}
	for _, g := range got {
		matched := -1
		for k, x := range exps {
			if used[k] {
				continue
			}
			if vPromName(g) != noHyphens(x.cm.m.Name) {
				continue
			}
			lv := vPromLabelValues(g)
			off := 0
			if !e.omitProgLabel {
				off = 1
			}
			if len(lv) != off+len(x.cm.labels[x.j]) {
				continue
			}
			if off == 1 && lv[0] != x.cm.m.Program {
				continue // another program's metric of the same name
			}
			if vParam("samename", 0) == 1 && off == 0 {
				// without the prog label only the label names tell the two
				// programs' samples apart
				nm := vPromLabelNames(g)
				differ := len(nm) != len(x.cm.m.Keys)
				for q := range x.cm.m.Keys {
					if !differ && nm[q] != x.cm.m.Keys[q] {
						differ = true
					}
				}
				if differ {
					continue
				}
			}
			same := true
			for q := range x.cm.labels[x.j] {
				if lv[off+q] != x.cm.labels[x.j][q] { // forks on symbolic label bytes
					same = false
				}
			}
			if same {
				matched = k
				break
			}
		}
		vAssert(matched >= 0, "C13.sample-corresponds-to-a-label-set")
		if matched < 0 {
			continue
		}
		used[matched] = true
		x := exps[matched]
		names := vPromLabelNames(g)
		lv := vPromLabelValues(g)
		if e.omitProgLabel {
			vAssert(len(names) == len(x.cm.m.Keys), "C13.label-names")
		} else {
			vAssert(len(names) == 1+len(x.cm.m.Keys) && names[0] == "prog" && lv[0] == x.cm.m.Program, "C13.prog-label")
		}
		for q, k := range x.cm.m.Keys {
			vAssert(names[len(names)-len(x.cm.m.Keys)+q] == k, "C13.label-names")
		}
		vAssert(vPromHasTS(g) == e.emitTimestamp, "C13.timestamp-iff-enabled")
		if e.emitTimestamp {
			vAssert(vPromTSNano(g)/1000000 == x.cm.tns[x.j]/1000000, "C13.timestamp-value")
		}
		switch x.cm.m.Kind {
		case metrics.Histogram:
			vAssert(vPromKind(g) == 4, "C13.type-follows-kind")
			cnt := vPromHistCount(g)
			vAssert(cnt == 2, "C13.histogram-count")
			prev := uint64(0)
			for _, le := range []float64{1, 2, math.Inf(1)} {
				c, ok := vPromHistBucket(g, le)
				vAssert(ok, "C13.histogram-bounds")
				vAssert(c >= prev, "C13.cumulative-non-decreasing")
				prev = c
			}
			vAssert(prev == cnt, "C13.inf-bucket-equals-count")
		case metrics.Counter:
			vAssert(vPromKind(g) == 1, "C13.type-follows-kind")
		case metrics.Gauge, metrics.Timer:
			vAssert(vPromKind(g) == 2, "C13.type-follows-kind")
		}
		if x.cm.m.Kind != metrics.Histogram {
			if x.cm.m.Type == metrics.Int {
				vAssert(vFloatSame(vPromValue(g), float64(x.cm.ival[x.j])), "C13.value-equals-datum")
			} else {
				vAssert(vFloatSame(vPromValue(g), x.cm.fval[x.j]), "C13.value-equals-datum")
			}
		}
	}
	// every label set whose constructor call was not refused is present:
	// the number of missing samples equals the number of refusals
	vAssert(len(got)+vFaultsFired() == expected, "C13.unrepresentable-label-sets-skipped-rest-emitted")
	vObserve("samples", len(got))
	c12After(s, ms, "C12.prom")
}

// faultWriter fails at solver-chosen writes and may cancel the request.
type faultWriter struct {
	cancel context.CancelFunc
	hdr    http.Header
	n      int
}

func (w *faultWriter) Header() http.Header { return w.hdr }
func (w *faultWriter) WriteHeader(int)      {}
func (w *faultWriter) Write(p []byte) (int, error) {
	_, err := w.WriteString(string(p))
	if err != nil {
		return 0, err
	}
	return len(p), nil
}
func (w *faultWriter) WriteString(s string) (int, error) {
	w.n++
	c12WriterPoint()
	if w.cancel != nil && vFault("cancel") {
		w.cancel()
	}
	if vFault("write") {
		return 0, errors.New("injected write error")
	}
	return 0, nil // the text may hold opaque formatted numbers: no length
}

// HarnessC12Socket: the push path with a connection that fails at a
// solver-chosen write.
func HarnessC12Socket() {
	s, ms := c12Store(vParam("nmetrics", 1), false, false)
	e := &Exporter{store: s, hostname: "host", pushInterval: 60 * time.Second}
	w := &faultWriter{}
	f := []formatter{metricToGraphite, metricToStatsd, metricToCollectd}[nondetRange("format", 0, 2)]
	c12WriterArm(ms)
	err := e.writeSocketMetrics(w, f, graphiteExportTotal, graphiteExportSuccess)
	_ = err
	c12WriterMetric = nil
	c12After(s, ms, "C12.socket")
}

// HarnessC12HTTP: the varz and graphite handlers with a client that goes away
// (context cancelled) before or between writes.
func HarnessC12HTTP() {
	s, ms := c12Store(vParam("nmetrics", 1), false, false)
	e := &Exporter{store: s, hostname: "host"}
	ctx, cancel := context.WithCancel(context.Background())
	if vFault("cancel-before") {
		cancel()
	}
	w := &faultWriter{cancel: cancel, hdr: http.Header{}}
	r := (&http.Request{}).WithContext(ctx)
	c12WriterArm(ms)
	if nondetRange("handler", 0, 1) == 0 {
		e.HandleVarz(w, r)
	} else {
		e.HandleGraphite(w, r)
	}
	c12WriterMetric = nil
	c12After(s, ms, "C12.http")
	cancel()
}
