package exporter

// c11Run (engine): the shared state is registered, then the two operations
// run one after the other with the race recorder on.
func c11Run(w *c11World, a, b func(), bFirst bool) bool {
	vRaceShared(w.s, w.m, w.m2)
	if bFirst {
		vRaceRun(1)
		b()
		vRaceRun(0)
		a()
	} else {
		vRaceRun(0)
		a()
		vRaceRun(1)
		b()
	}
	return vRaceEnd()
}
