package exporter

import (
	"github.com/google/mtail/internal/metrics"
	"github.com/prometheus/client_golang/prometheus"
)

// c12AwaitQueued: run the new goroutine until it blocks on the lock.
func c12AwaitQueued(m *metrics.Metric) { vQuiesce() }

// Accessors of recorded Prometheus samples (engine side: bodyless, the
// executor answers from the arguments it recorded at the constructor call).

func vPromName(m prometheus.Metric) string
func vPromLabelNames(m prometheus.Metric) []string
func vPromLabelValues(m prometheus.Metric) []string
func vPromValue(m prometheus.Metric) float64
func vPromKind(m prometheus.Metric) int
func vPromHasTS(m prometheus.Metric) bool
func vPromTSNano(m prometheus.Metric) int64
func vPromHistCount(m prometheus.Metric) uint64
func vPromHistSum(m prometheus.Metric) float64
func vPromHistBucket(m prometheus.Metric, le float64) (uint64, bool)
func vPromHistBuckets(m prometheus.Metric) int
func vHTTPErrors() int
