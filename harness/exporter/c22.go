package exporter

import (
	"math"
	"strconv"
	"time"

	"github.com/google/mtail/internal/metrics"
	"github.com/google/mtail/internal/metrics/datum"
)

// C22: every per-label-set formatter reports that label set's own value and
// timestamp.  Metamorphic check: the record produced for label set 2 of a
// metric with two label sets equals the record produced for a metric that
// holds only label set 2; and the record is not constant in the value.

func c22Emit(m *metrics.Metric) []*metrics.LabelSet {
	c := make(chan *metrics.LabelSet)
	go m.EmitLabelSets(c)
	var out []*metrics.LabelSet
	for ls := range c {
		out = append(out, ls)
	}
	return out
}

type c22Val struct {
	i    int64
	f    float64
	obs  [2]float64
	t    int64
	text byte
}

func c22Sym(tag string) c22Val {
	v := c22Val{i: nondetInt64(tag + ".i"), f: nondetFloat64(tag + ".f"), t: nondetInt64(tag + ".t")}
	v.obs[0] = nondetFloat64(tag + ".obs")
	v.obs[1] = nondetFloat64(tag + ".obs")
	v.text = nondetByte(tag + ".text")
	return v
}

func c22Set(d datum.Datum, v c22Val) {
	switch x := d.(type) {
	case *datum.Int:
		x.Value, x.Time = v.i, v.t
	case *datum.Float:
		x.Set(v.f, time.Unix(1, 0))
		x.Time = v.t
	case *datum.String:
		x.Set(string([]byte{v.text}), time.Unix(1, 0))
		x.Time = v.t
	case *datum.Buckets:
		x.Observe(v.obs[0], time.Unix(1, 0))
		x.Observe(v.obs[1], time.Unix(1, 0))
		x.Time = v.t
	}
}

func c22Metric(kind metrics.Kind, typ metrics.Type, labels []string, vals []c22Val) *metrics.Metric {
	m := metrics.NewMetric("foo", "prog", kind, typ, "key")
	if kind == metrics.Histogram {
		m.Buckets = []datum.Range{{0, 1}, {1, 2}, {2, math.Inf(1)}}
	}
	for i, l := range labels {
		d, err := m.GetDatum(l)
		if err != nil {
			vAssert(false, "C22.setup")
		}
		c22Set(d, vals[i])
	}
	return m
}

// c22LabelByte: printable ASCII other than the characters that separate
// fields (or are rewritten as separators) in graphite, statsd, collectd, varz.
func c22LabelByte(b byte) bool {
	if b <= ' ' || b >= 0x7f {
		return false
	}
	switch b {
	case '.', '-', ':', '|', '/', '"', '=', ',', '{', '}', '\\':
		return false
	}
	return true
}

func HarnessC22() {
	which := nondetRange("kind", 0, 5)
	kind := []metrics.Kind{metrics.Counter, metrics.Gauge, metrics.Timer, metrics.Counter, metrics.Histogram, metrics.Text}[which]
	typ := []metrics.Type{metrics.Int, metrics.Float, metrics.Int, metrics.Float, metrics.Buckets, metrics.String}[which]
	v1, v2 := c22Sym("v1"), c22Sym("v2")
	// label values: one symbolic byte each, distinct: any printable ASCII
	// character that does not separate fields in one of the formats
	l1, l2 := nondetByte("l1"), nondetByte("l2")
	vAssume(c22LabelByte(l1))
	vAssume(c22LabelByte(l2))
	vAssume(l1 != l2)
	labels := []string{string([]byte{l1}), string([]byte{l2})}
	both := c22Metric(kind, typ, labels, []c22Val{v1, v2})
	only2 := c22Metric(kind, typ, labels[1:], []c22Val{v2})
	lsBoth := c22Emit(both)
	lsOnly := c22Emit(only2)
	vAssert(len(lsBoth) == 2 && len(lsOnly) == 1, "C22.enumeration")
	if len(lsBoth) != 2 || len(lsOnly) != 1 {
		return
	}
	// the value text every formatter prints denotes the datum's value: it
	// parses back to exactly that number
	for i, ls := range lsBoth {
		v := []c22Val{v1, v2}[i]
		txt := ls.Datum.ValueString()
		switch typ {
		case metrics.Int:
			n, err := strconv.ParseInt(txt, 10, 64)
			vAssert(err == nil && n == v.i, "C22.value-text-denotes-the-label-sets-value")
		case metrics.Float:
			f, err := strconv.ParseFloat(txt, 64)
			vAssert(err == nil && vFloatSame(f, v.f), "C22.value-text-denotes-the-label-sets-value")
		case metrics.Buckets:
			f, err := strconv.ParseFloat(txt, 64)
			vAssert(err == nil && vFloatSame(f, 0+v.obs[0]+v.obs[1]), "C22.value-text-denotes-the-label-sets-value")
		}
	}
	fmtr := nondetRange("format", 0, 3)
	render := func(m *metrics.Metric, l *metrics.LabelSet) string {
		switch fmtr {
		case 0:
			return metricToGraphite("host", m, l, 60*time.Second)
		case 1:
			return metricToStatsd("host", m, l, 60*time.Second)
		case 2:
			return metricToCollectd("host", m, l, 60*time.Second)
		}
		return metricToVarz(m, l, false, "host")
	}
	got := render(both, lsBoth[1])
	want := render(only2, lsOnly[0])
	// (a graphite histogram record is one line per bucket written while
	// ranging over a map: the lines are compared as a set)
	vAssert(vSameLines(got, want), "C22.record-carries-own-label-sets-value")
	// the record is the format's line made of this label set's label, value
	// text and timestamp text (reference written from the formats' documents;
	// the metric is foo{key=L} of program prog, host "host", interval 60s,
	// no prefix flags)
	if kind != metrics.Histogram && fmtr < 3 {
		L := labels[1]
		V := lsBoth[1].Datum.ValueString()
		T := lsBoth[1].Datum.TimeString()
		var ref string
		switch fmtr {
		case 0:
			ref = "prog.foo.key." + L + " " + V + " " + T + "\n"
		case 1:
			ref = "prog.foo.key." + L + ":" + V + "|" + []string{"c", "g", "ms", "c", "", ""}[which]
		case 2:
			ref = "PUTVAL \"host/mtail-prog/" + []string{"counter", "gauge", "gauge", "counter", "", "text"}[which] + "-foo-key-" + L + "\" interval=60 " + T + ":" + V + "\n"
		}
		vAssert(vStrEq(got, ref), "C22.record-well-formed")
	}
	// the record for label set 1 is not the one for label set 2
	first := render(both, lsBoth[0])
	vAssert(!vSameLines(first, got), "C22.records-distinct")
}

// HarnessC22Reexport: a second export after a label set was removed and
// another one added must describe the current label sets, not the ones seen
// by the first export.
func HarnessC22Reexport() {
	which := nondetRange("kind", 0, 2)
	kind := []metrics.Kind{metrics.Counter, metrics.Gauge, metrics.Timer}[which]
	typ := []metrics.Type{metrics.Int, metrics.Float, metrics.Int}[which]
	v1, v2, v3 := c22Sym("v1"), c22Sym("v2"), c22Sym("v3")
	m := c22Metric(kind, typ, []string{"a", "b"}, []c22Val{v1, v2})
	fmtr := nondetRange("format", 0, 3)
	render := func(m *metrics.Metric, l *metrics.LabelSet) string {
		switch fmtr {
		case 0:
			return metricToGraphite("host", m, l, 60*time.Second)
		case 1:
			return metricToStatsd("host", m, l, 60*time.Second)
		case 2:
			return metricToCollectd("host", m, l, 60*time.Second)
		}
		return metricToVarz(m, l, false, "host")
	}
	for _, ls := range c22Emit(m) { // first export
		_ = render(m, ls)
	}
	if m.RemoveDatum("a") != nil {
		vAssert(false, "C22.setup")
	}
	d, err := m.GetDatum("c")
	if err != nil {
		vAssert(false, "C22.setup")
	}
	c22Set(d, v3)
	fresh := c22Metric(kind, typ, []string{"b", "c"}, []c22Val{v2, v3})
	got := c22Emit(m)
	want := c22Emit(fresh)
	vAssert(len(got) == len(want), "C22.second-export-lists-current-label-sets")
	if len(got) != len(want) {
		return
	}
	for i := range got {
		vAssert(vSameLines(render(m, got[i]), render(fresh, want[i])), "C22.second-export-carries-current-values")
	}
}

// c22Rec records every write made on a push connection.
type c22Rec struct{ writes []string }

func (r *c22Rec) Write(p []byte) (int, error) {
	r.writes = append(r.writes, string(p))
	return len(p), nil
}

func (r *c22Rec) WriteString(s string) (int, error) {
	r.writes = append(r.writes, s)
	// (the callers only log the count; the length of a string holding a
	// formatted symbolic number is not something the engine knows)
	return 1, nil
}

// HarnessC22Push: the push path (writeSocketMetrics) puts exactly one record
// per label set on the connection, each in a write of its own (a statsd or
// collectd datagram holds one record), and each record is the formatter's
// record for that label set.
func HarnessC22Push() {
	which := nondetRange("kind", 0, 2)
	kind := []metrics.Kind{metrics.Counter, metrics.Gauge, metrics.Timer}[which]
	typ := []metrics.Type{metrics.Int, metrics.Float, metrics.Int}[which]
	v1, v2 := c22Sym("v1"), c22Sym("v2")
	m := c22Metric(kind, typ, []string{"a", "b"}, []c22Val{v1, v2})
	s := metrics.NewStore()
	if s.Add(m) != nil {
		vAssert(false, "C22.setup")
		return
	}
	fi := nondetRange("format", 0, 2)
	f := []formatter{metricToGraphite, metricToStatsd, metricToCollectd}[fi]
	e := &Exporter{store: s, hostname: "host", pushInterval: 60 * time.Second}
	w := &c22Rec{}
	err := e.writeSocketMetrics(w, f, graphiteExportTotal, graphiteExportSuccess)
	vAssert(err == nil, "C22.push-succeeds")
	ls := c22Emit(m)
	vAssert(len(w.writes) == len(ls), "C22.push-one-record-per-label-set")
	if len(w.writes) != len(ls) {
		return
	}
	for i, l := range ls {
		vAssert(vStrEq(w.writes[i], f("host", m, l, 60*time.Second)), "C22.push-record-is-the-label-sets-record")
	}
}
