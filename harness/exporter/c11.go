package exporter

import (
	"context"
	"math"
	"net/http"
	"time"

	"github.com/google/mtail/internal/metrics"
	"github.com/google/mtail/internal/metrics/datum"
	"github.com/prometheus/client_golang/prometheus"
)

// C11 (reduced scope): no data race between any two of the operations that
// run concurrently in mtail on one store: line processing (datum lookup /
// creation, deletion, expiry marks, value updates), garbage collection,
// metric registration on reload, and the Prometheus, varz, graphite and push
// exports.  Two operations at a time, on a store holding one metric with two
// label sets; see engine/race.go for how a race is decided.

type c11World struct {
	s  *metrics.Store
	m  *metrics.Metric
	d  datum.Datum
	e  *Exporter
	m2 *metrics.Metric
}

func c11Build(typ int) *c11World {
	s := metrics.NewStore()
	kind := []metrics.Kind{metrics.Counter, metrics.Gauge, metrics.Text, metrics.Histogram}[typ]
	mt := []metrics.Type{metrics.Int, metrics.Float, metrics.String, metrics.Buckets}[typ]
	m := metrics.NewMetric("foo", "prog", kind, mt, "key")
	m.Source = "prog:1"
	if kind == metrics.Histogram {
		m.Buckets = []datum.Range{{0, 1}, {1, 2}, {2, math.Inf(1)}}
	}
	d, err := m.GetDatum("a")
	_, err2 := m.GetDatum("b")
	if err != nil || err2 != nil || s.Add(m) != nil {
		vAssert(false, "C11.setup")
	}
	redecl := func() *metrics.Metric {
		// a re-declaration of the same metric, as a reload registers it
		x := metrics.NewMetric("foo", "prog", kind, mt, "key")
		x.Source = "prog:1"
		if kind == metrics.Histogram {
			x.Buckets = []datum.Range{{0, 1}, {1, 2}, {2, math.Inf(1)}}
		}
		return x
	}
	// the store may already have seen a reload of the program (its metric
	// lists then have spare capacity and are updated in place)
	if nondetRange("reloaded-before", 0, 1) == 1 {
		m1 := redecl()
		if s.Add(m1) != nil {
			vAssert(false, "C11.setup")
		}
		m = m1
		d, err = m.GetDatum("a")
		if err != nil {
			vAssert(false, "C11.setup")
		}
	}
	return &c11World{s: s, m: m, d: d, e: &Exporter{store: s, hostname: "host", pushInterval: 60 * time.Second}, m2: redecl()}
}

type nullWriter struct{ hdr http.Header }

func (w *nullWriter) Header() http.Header               { return w.hdr }
func (w *nullWriter) WriteHeader(int)                   {}
func (w *nullWriter) Write(p []byte) (int, error)       { return len(p), nil }
func (w *nullWriter) WriteString(s string) (int, error) { return 0, nil }

var c11OpNames = []string{
	"GetDatum(existing)", "GetDatum(new)", "RemoveDatum", "ExpireDatum", "update value",
	"Store.Gc", "Store.Add(re-declared)", "Collect (prometheus)", "HandleVarz", "HandleGraphite", "push (graphite)",
	"FindMetricOrNil", "update value of the other label set",
}

func (w *c11World) op(i int) func() {
	switch i {
	case 0:
		return func() { w.m.GetDatum("a") }
	case 1:
		return func() { w.m.GetDatum("c") }
	case 2:
		return func() { w.m.RemoveDatum("b") }
	case 3:
		return func() { w.m.ExpireDatum(time.Hour, "a") }
	case 4, 12:
		return func() {
			d := w.d
			if i == 12 {
				d, _ = w.m.GetDatum("b")
			}
			switch x := d.(type) {
			case *datum.Int:
				datum.IncIntBy(x, 1, time.Unix(5, 0))
			case *datum.Float:
				datum.SetFloat(x, 1.5, time.Unix(5, 0))
			case *datum.String:
				datum.SetString(x, "t", time.Unix(5, 0))
			case *datum.Buckets:
				x.Observe(1.5, time.Unix(5, 0))
			}
		}
	case 5:
		return func() { w.s.Gc() }
	case 6:
		return func() { w.s.Add(w.m2) }
	case 7:
		return func() {
			c := make(chan prometheus.Metric, 16)
			w.e.Collect(c)
		}
	case 8:
		return func() {
			w.e.HandleVarz(&nullWriter{hdr: http.Header{}}, (&http.Request{}).WithContext(context.Background()))
		}
	case 9:
		return func() {
			w.e.HandleGraphite(&nullWriter{hdr: http.Header{}}, (&http.Request{}).WithContext(context.Background()))
		}
	case 10:
		return func() {
			w.e.writeSocketMetrics(&nullWriter{}, metricToGraphite, graphiteExportTotal, graphiteExportSuccess)
		}
	case 11:
		return func() { w.s.FindMetricOrNil("foo", "prog") }
	}
	return func() {}
}

// HarnessC11Pair: one pair of operations (parameters a, b), value type typ.
func HarnessC11Pair() {
	a, b := vParam("a", 0), vParam("b", 0)
	typ := nondetRange("type", 0, 3)
	w := c11Build(typ)
	// in the engine the two run one after the other, in either order
	first := nondetRange("order", 0, 1)
	opA, opB := w.op(a), w.op(b)
	ok := c11Run(w, opA, opB, first == 1)
	vAssert(ok, "C11.no-data-race")
	vObserve("pair", a*100+b)
}
