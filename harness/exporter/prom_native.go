package exporter

// Native counterparts of the engine's Prometheus stubs: the constructors may
// be made to fail by the replay vector, and otherwise fail exactly when the
// real client library refuses the sample (both count as refusals) (call sites in prometheus.go are
// rewritten to these for replay), the accessors decode the real client
// library objects.

import (
	"errors"
	"math"
	"regexp"
	"strings"
	"time"

	"github.com/google/mtail/internal/metrics"

	"github.com/prometheus/client_golang/prometheus"
	dto "github.com/prometheus/client_model/go"
)

// c12AwaitQueued waits until the writer is queued on the metric's lock (a
// pending writer makes TryRLock fail) or has got through.
func c12AwaitQueued(m *metrics.Metric) {
	for i := 0; i < 200; i++ {
		if !m.TryRLock() {
			return
		}
		m.RUnlock()
		time.Sleep(time.Millisecond)
	}
}

func verifNewConstMetric(desc *prometheus.Desc, vt prometheus.ValueType, v float64, lv ...string) (prometheus.Metric, error) {
	c12WriterPoint()
	if vFault("NewConstMetric") {
		return nil, errors.New("injected: prometheus refused the sample")
	}
	m, err := prometheus.NewConstMetric(desc, vt, v, lv...)
	if err != nil {
		verifFaults++ // a refusal of the real client library (modelled by the engine's promRefuses)
	}
	return m, err
}

func verifNewConstHistogram(desc *prometheus.Desc, count uint64, sum float64, buckets map[float64]uint64, lv ...string) (prometheus.Metric, error) {
	c12WriterPoint()
	if vFault("NewConstMetric") {
		return nil, errors.New("injected: prometheus refused the sample")
	}
	m, err := prometheus.NewConstHistogram(desc, count, sum, buckets, lv...)
	if err != nil {
		verifFaults++
	}
	return m, err
}

var verifDescRe = regexp.MustCompile(`fqName: "([^"]*)", help: "([^"]*)", constLabels: \{[^}]*\}, variableLabels: \{([^}]*)\}`)

func verifDTO(m prometheus.Metric) *dto.Metric {
	var d dto.Metric
	if err := m.Write(&d); err != nil {
		panic(err)
	}
	return &d
}

func vPromName(m prometheus.Metric) string {
	return verifDescRe.FindStringSubmatch(m.Desc().String())[1]
}
func vPromLabelNames(m prometheus.Metric) []string {
	s := verifDescRe.FindStringSubmatch(m.Desc().String())[3]
	if s == "" {
		return nil
	}
	return strings.Split(s, ",")
}
func vPromLabelValues(m prometheus.Metric) []string {
	// dto sorts label pairs by name; return them in declaration order
	d := verifDTO(m)
	byName := map[string]string{}
	for _, lp := range d.Label {
		byName[lp.GetName()] = lp.GetValue()
	}
	var out []string
	for _, n := range vPromLabelNames(m) {
		out = append(out, byName[n])
	}
	return out
}
func vPromValue(m prometheus.Metric) float64 {
	d := verifDTO(m)
	switch {
	case d.Counter != nil:
		return d.Counter.GetValue()
	case d.Gauge != nil:
		return d.Gauge.GetValue()
	case d.Untyped != nil:
		return d.Untyped.GetValue()
	}
	return math.NaN()
}
func vPromKind(m prometheus.Metric) int {
	d := verifDTO(m)
	switch {
	case d.Counter != nil:
		return 1
	case d.Gauge != nil:
		return 2
	case d.Untyped != nil:
		return 3
	case d.Histogram != nil:
		return 4
	}
	return 0
}
func vPromHasTS(m prometheus.Metric) bool { return verifDTO(m).TimestampMs != nil }
func vPromTSNano(m prometheus.Metric) int64 {
	return verifDTO(m).GetTimestampMs() * 1000000
}
func vPromHistCount(m prometheus.Metric) uint64 { return verifDTO(m).Histogram.GetSampleCount() }
func vPromHistSum(m prometheus.Metric) float64  { return verifDTO(m).Histogram.GetSampleSum() }
func vPromHistBucket(m prometheus.Metric, le float64) (uint64, bool) {
	h := verifDTO(m).Histogram
	if math.IsInf(le, 1) {
		// the client library folds +Inf into the sample count
		return h.GetSampleCount(), true
	}
	for _, b := range h.Bucket {
		if b.GetUpperBound() == le {
			return b.GetCumulativeCount(), true
		}
	}
	return 0, false
}
func vPromHistBuckets(m prometheus.Metric) int { return len(verifDTO(m).Histogram.Bucket) + 1 }
func vHTTPErrors() int                         { return verifHTTPErrors }

var verifHTTPErrors int
