package vm

import (
	"fmt"
	"math"
	"strconv"
	"strings"
	"time"

	"github.com/google/mtail/internal/metrics"
	"github.com/google/mtail/internal/metrics/datum"
	"github.com/google/mtail/internal/runtime/code"
)

// C01: compiled programs compute what the language reference says.
//
// The intended tree of each generated program (engine/checks_c01.go prints
// the program text from the same tree) is evaluated by the reference
// interpreter below, written from docs/Language.md, on a second copy of the
// program's metrics; the real VM runs the bytecode the working tree's
// compiler produced from the text.  Both see the same symbolic match
// outcomes, captures and metric values.
//
// Choices where Language.md is silent (stated in DESIGN.md 4 C01):
//   - operator levels and left associativity as in parser.y at the pinned
//     commit: && || < & | ^ < relational < << >> < + - < * / % ** < ~
//   - integer arithmetic wraps at 64 bits; / and % by zero are runtime errors;
//     a ** b on integers is int64(math.Pow(float64(a), float64(b)))
//   - a shift count < 0 or >= 2^31-1 is a runtime error
//   - an integer meeting a float is converted to float; a number meeting a
//     string under + is converted to its text and concatenated
//   - label values are the decimal / %g / verbatim text of the key expression
//   - in an assignment the key expressions are evaluated first, then the datum
//     is looked up (created if new), then the value: a runtime error in the
//     value leaves a new, zero-valued label set behind
//   - else bodies are scopes of their own for `otherwise`, and a conditional
//     whose else branch ran has not matched

const (
	rtNone   = 0
	rtInt    = 1
	rtFloat  = 2
	rtString = 3
	rtBool   = 4
)

// rN is a node of the intended tree.
type rN struct {
	K string // kind
	A []*rN  // children
	I int64  // literal / metric index / regexp index
	D int64  // capture group index / duration (ns)
	F float64
	S string // operator / builtin name / string literal
	T int    // static type of an expression
}

type rVal struct {
	t int
	i int64
	f float64
	s string
	b bool
}

// rCtx is one run of the reference semantics on one line.
type rCtx struct {
	obj     *code.Object // the metrics written by this run
	m       vmMatch      // the line: per pattern, match and captures
	now     time.Time
	flagSem bool // evaluate `otherwise` with one global matched flag (the VM's scheme)
	err     bool
	stopped bool
	otherw  []bool  // decisions taken at each otherwise, in order
	deco    []*rN   // decorated blocks awaiting `next`
	matched []bool  // per scope: has a conditional matched (doc semantics)
	flag    bool    // single register (flagSem)
	tried   map[int]bool // patterns evaluated on this line
}

func (c *rCtx) fail() rVal { c.err = true; return rVal{} }

func (c *rCtx) halted() bool { return c.err || c.stopped }

func rFloatOf(v rVal) float64 {
	if v.t == rtInt {
		return float64(v.i)
	}
	return v.f
}

func rKeyString(v rVal) string {
	switch v.t {
	case rtInt:
		return strconv.FormatInt(v.i, 10)
	case rtFloat:
		return fmt.Sprintf("%g", v.f)
	}
	return v.s
}

func (c *rCtx) eval(n *rN) rVal {
	if c.halted() {
		return rVal{}
	}
	switch n.K {
	case "int":
		return rVal{t: rtInt, i: n.I}
	case "float":
		return rVal{t: rtFloat, f: n.F}
	case "str":
		return rVal{t: rtString, s: n.S}
	case "cap":
		mm := c.m[n.I]
		if !c.tried[int(n.I)] || mm == nil || int(n.D) >= len(mm) {
			return c.fail() // capture group of a pattern that did not match
		}
		s := mm[n.D]
		switch n.T {
		case rtInt:
			i, err := strconv.ParseInt(s, 10, 64)
			if err != nil {
				return c.fail()
			}
			return rVal{t: rtInt, i: i}
		case rtFloat:
			f, err := strconv.ParseFloat(s, 64)
			if err != nil {
				return c.fail()
			}
			return rVal{t: rtFloat, f: f}
		}
		return rVal{t: rtString, s: s}
	case "mread":
		d, err := c.obj.Metrics[n.I].GetDatum()
		if err != nil {
			return c.fail()
		}
		switch x := d.(type) {
		case *datum.Int:
			return rVal{t: rtInt, i: x.Get()}
		case *datum.Float:
			return rVal{t: rtFloat, f: x.Get()}
		case *datum.String:
			return rVal{t: rtString, s: x.Get()}
		}
		return c.fail()
	case "pat":
		c.tried[int(n.I)] = true
		return rVal{t: rtBool, b: c.m[n.I] != nil}
	case "smatch":
		c.eval(n.A[0])
		if c.halted() {
			return rVal{}
		}
		c.tried[int(n.I)] = true
		return rVal{t: rtBool, b: c.m[n.I] != nil}
	case "nsmatch":
		c.eval(n.A[0])
		if c.halted() {
			return rVal{}
		}
		c.tried[int(n.I)] = true
		return rVal{t: rtBool, b: c.m[n.I] == nil}
	case "and":
		l := c.eval(n.A[0])
		if c.halted() || !rTruth(l) {
			return rVal{t: rtBool, b: false}
		}
		return rVal{t: rtBool, b: rTruth(c.eval(n.A[1]))}
	case "or":
		l := c.eval(n.A[0])
		if c.halted() {
			return rVal{}
		}
		if rTruth(l) {
			return rVal{t: rtBool, b: true}
		}
		return rVal{t: rtBool, b: rTruth(c.eval(n.A[1]))}
	case "neg":
		v := c.eval(n.A[0])
		return rVal{t: rtInt, i: ^v.i}
	case "cmp":
		l := c.eval(n.A[0])
		r := c.eval(n.A[1])
		if c.halted() {
			return rVal{}
		}
		return rVal{t: rtBool, b: rCompare(n.S, l, r)}
	case "bin":
		l := c.eval(n.A[0])
		r := c.eval(n.A[1])
		if c.halted() {
			return rVal{}
		}
		return c.arith(n.S, l, r)
	case "call":
		return c.builtin(n)
	}
	vAssert(false, "VM.setup")
	return rVal{}
}

func rTruth(v rVal) bool {
	if v.t == rtInt {
		return v.i != 0
	}
	return v.b
}

func rCompare(op string, l, r rVal) bool {
	if l.t == rtString && r.t == rtString {
		switch op {
		case "<":
			return l.s < r.s
		case "<=":
			return l.s <= r.s
		case ">":
			return l.s > r.s
		case ">=":
			return l.s >= r.s
		case "==":
			return l.s == r.s
		}
		return l.s != r.s
	}
	if l.t == rtInt && r.t == rtInt {
		switch op {
		case "<":
			return l.i < r.i
		case "<=":
			return l.i <= r.i
		case ">":
			return l.i > r.i
		case ">=":
			return l.i >= r.i
		case "==":
			return l.i == r.i
		}
		return l.i != r.i
	}
	a, b := rFloatOf(l), rFloatOf(r)
	switch op {
	case "<":
		return a < b
	case "<=":
		return a <= b
	case ">":
		return a > b
	case ">=":
		return a >= b
	case "==":
		return a == b
	}
	return a != b
}

func (c *rCtx) arith(op string, l, r rVal) rVal {
	if (l.t == rtString || r.t == rtString) && op == "+" {
		// + on a string is concatenation; a number meeting a string is
		// written as its decimal / %g text (Int and Float coerce to String)
		return rVal{t: rtString, s: rKeyString(l) + rKeyString(r)}
	}
	if l.t == rtInt && r.t == rtInt {
		a, b := l.i, r.i
		switch op {
		case "+":
			return rVal{t: rtInt, i: a + b}
		case "-":
			return rVal{t: rtInt, i: a - b}
		case "*":
			return rVal{t: rtInt, i: a * b}
		case "/":
			if b == 0 {
				return c.fail()
			}
			return rVal{t: rtInt, i: a / b}
		case "%":
			if b == 0 {
				return c.fail()
			}
			return rVal{t: rtInt, i: a % b}
		case "**":
			return rVal{t: rtInt, i: int64(math.Pow(float64(a), float64(b)))}
		case "<<":
			if b < 0 || b >= math.MaxInt32 {
				return c.fail()
			}
			return rVal{t: rtInt, i: a << uint(b)}
		case ">>":
			if b < 0 || b >= math.MaxInt32 {
				return c.fail()
			}
			return rVal{t: rtInt, i: a >> uint(b)}
		case "&":
			return rVal{t: rtInt, i: a & b}
		case "|":
			return rVal{t: rtInt, i: a | b}
		case "^":
			return rVal{t: rtInt, i: a ^ b}
		}
	}
	a, b := rFloatOf(l), rFloatOf(r)
	switch op {
	case "+":
		return rVal{t: rtFloat, f: a + b}
	case "-":
		return rVal{t: rtFloat, f: a - b}
	case "*":
		return rVal{t: rtFloat, f: a * b}
	case "/":
		return rVal{t: rtFloat, f: a / b}
	case "%":
		return rVal{t: rtFloat, f: math.Mod(a, b)}
	case "**":
		return rVal{t: rtFloat, f: math.Pow(a, b)}
	}
	vAssert(false, "VM.setup")
	return rVal{}
}

func (c *rCtx) builtin(n *rN) rVal {
	var args []rVal
	for _, a := range n.A {
		args = append(args, c.eval(a))
	}
	if c.halted() {
		return rVal{}
	}
	switch n.S {
	case "len":
		return rVal{t: rtInt, i: int64(len(args[0].s))}
	case "tolower":
		return rVal{t: rtString, s: strings.ToLower(args[0].s)}
	case "subst":
		return rVal{t: rtString, s: strings.ReplaceAll(args[2].s, args[0].s, args[1].s)}
	case "strtol":
		base := args[1].i
		if base <= 0 || base >= math.MaxInt32 {
			return c.fail()
		}
		i, err := strconv.ParseInt(args[0].s, int(base), 64)
		if err != nil {
			return c.fail()
		}
		return rVal{t: rtInt, i: i}
	case "int":
		switch args[0].t {
		case rtInt:
			return args[0]
		case rtFloat:
			return rVal{t: rtInt, i: int64(args[0].f)}
		}
		i, err := strconv.ParseInt(args[0].s, 10, 64)
		if err != nil {
			return c.fail()
		}
		return rVal{t: rtInt, i: i}
	case "float":
		switch args[0].t {
		case rtInt:
			return rVal{t: rtFloat, f: float64(args[0].i)}
		case rtFloat:
			return args[0]
		}
		f, err := strconv.ParseFloat(args[0].s, 64)
		if err != nil {
			return c.fail()
		}
		return rVal{t: rtFloat, f: f}
	case "string":
		return rVal{t: rtString, s: rKeyString(args[0])}
	case "getfilename":
		return rVal{t: rtString, s: "file.log"}
	case "timestamp":
		return rVal{t: rtInt, i: c.now.Unix()}
	}
	vAssert(false, "VM.setup")
	return rVal{}
}

func (c *rCtx) keys(n *rN) []string {
	var ks []string
	for _, k := range n.A {
		ks = append(ks, rKeyString(c.eval(k)))
	}
	return ks
}

// block runs a statement list as one scope.
func (c *rCtx) block(n *rN) {
	c.matched = append(c.matched, false)
	if c.flagSem {
		c.flag = false
	}
	for _, s := range n.A {
		if c.halted() {
			break
		}
		c.stmt(s)
	}
	c.matched = c.matched[:len(c.matched)-1]
}

// elseBlock: in the VM's scheme an else body neither resets the flag on
// entry nor marks the conditional as matched on exit.
func (c *rCtx) elseBlock(n *rN) {
	if !c.flagSem {
		c.block(n)
		return
	}
	c.matched = append(c.matched, false)
	for _, s := range n.A {
		if c.halted() {
			break
		}
		c.stmt(s)
	}
	c.matched = c.matched[:len(c.matched)-1]
}

func (c *rCtx) scopeMatched() {
	c.matched[len(c.matched)-1] = true
}

func (c *rCtx) stmt(n *rN) {
	switch n.K {
	case "cond":
		v := c.eval(n.A[0])
		if c.halted() {
			return
		}
		if rTruth(v) {
			c.block(n.A[1])
			c.scopeMatched()
			c.flag = true
		} else if len(n.A) > 2 {
			c.elseBlock(n.A[2])
		}
	case "otherwise":
		fire := !c.matched[len(c.matched)-1]
		if c.flagSem {
			fire = !c.flag
		}
		c.otherw = append(c.otherw, fire)
		if fire {
			c.block(n.A[0])
			c.scopeMatched()
			c.flag = true
		}
	case "set":
		m := c.obj.Metrics[n.I]
		ks := c.keys(n.A[0])
		if c.halted() {
			return
		}
		// the datum assigned to is looked up (and created) before the value
		// is computed
		d, err := m.GetDatum(ks...)
		if err != nil {
			c.fail()
			return
		}
		var v rVal
		if len(n.A) > 1 {
			v = c.eval(n.A[1])
		}
		if c.halted() {
			return
		}
		switch n.S {
		case "++":
			datum.IncIntBy(d, 1, c.stamp())
		case "--":
			datum.DecIntBy(d, 1, c.stamp())
		case "+=":
			datum.IncIntBy(d, v.i, c.stamp())
		case "=":
			switch m.Type {
			case metrics.Int:
				if v.t != rtInt {
					vAssert(false, "C01.metric-has-the-type-of-the-values-assigned-to-it")
					return
				}
				datum.SetInt(d, v.i, c.stamp())
			case metrics.Float:
				if v.t != rtFloat && v.t != rtInt {
					vAssert(false, "C01.metric-has-the-type-of-the-values-assigned-to-it")
					return
				}
				datum.SetFloat(d, rFloatOf(v), c.stamp())
			case metrics.String:
				if v.t != rtString {
					vAssert(false, "C01.metric-has-the-type-of-the-values-assigned-to-it")
					return
				}
				datum.SetString(d, v.s, c.stamp())
			default:
				vAssert(false, "VM.setup")
			}
		}
	case "del":
		m := c.obj.Metrics[n.I]
		ks := c.keys(n.A[0])
		if c.halted() {
			return
		}
		if n.D != 0 {
			if m.ExpireDatum(time.Duration(n.D), ks...) != nil {
				c.fail()
			}
		} else if m.RemoveDatum(ks...) != nil {
			c.fail()
		}
	case "stop":
		c.stopped = true
	case "deco":
		c.deco = append(c.deco, n.A[1])
		c.block(n.A[0])
		c.deco = c.deco[:len(c.deco)-1]
	case "next":
		inner := c.deco[len(c.deco)-1]
		saved := c.deco
		c.deco = c.deco[:len(c.deco)-1]
		c.block(inner)
		c.deco = saved
	case "expr":
		c.eval(n.A[0])
	default:
		vAssert(false, "VM.setup")
	}
}

func (c *rCtx) stamp() time.Time { return time.Time{} }

func rRun(obj *code.Object, prog *rN, m vmMatch, now time.Time, flagSem bool) *rCtx {
	c := &rCtx{obj: obj, m: m, now: now, flagSem: flagSem, tried: map[int]bool{}}
	c.block(prog)
	return c
}

func rSameDecisions(a, b []bool) bool {
	if len(a) != len(b) {
		return false
	}
	same := true
	for i := range a {
		same = vAnd(same, a[i] == b[i])
	}
	return same
}

// vmCheckRef runs one line on the real VM (instance A) and on the reference
// semantics (instance B, same starting values) and compares everything the
// property names: label sets, values, deletions, expiry marks and whether a
// runtime error was raised.
// rPat describes one pattern of the intended tree: its regexp source, the
// pattern whose first capture it is matched against (-1: the line), and the
// index of the compiled regexp that stands for it.
type rPat struct {
	re   string
	subj int
	idx  int
}

func rSameOutcome(a, b []string) bool {
	if a == nil || b == nil {
		return a == nil && b == nil
	}
	same := len(a) == len(b)
	for i := 1; same && i < len(a); i++ {
		same = a[i] == b[i]
	}
	return same
}

// rApplyMatch gives every pattern its outcome for the string it is applied
// to.  Patterns with the same text are the same function: applied to equal
// strings they have equal outcomes.
func rApplyMatch(obj *code.Object, pats []rPat, l vmMatch) {
	subjects := make([]string, len(pats))
	active := make([]bool, len(pats))
	for i, pt := range pats {
		subjects[i] = "LINE"
		if pt.idx < 0 {
			continue // declared by the shape generator, not used by the program
		}
		if pt.subj >= 0 {
			if l[pt.subj] == nil {
				continue // its operand's pattern did not match: never evaluated
			}
			subjects[i] = l[pt.subj][1]
		}
		active[i] = true
		for j := 0; j < i; j++ {
			if active[j] && pats[j].re == pt.re && subjects[j] == subjects[i] {
				vAssume(rSameOutcome(l[i], l[j]))
			}
		}
		vSetMatchOn(obj.Regexps[pt.idx], subjects[i], l[i])
	}
}

func vmCheckRef(mk func() *code.Object, caps [][]int, name string, prog *rN, types []int, pats []rPat) {
	vClockFreeze()
	a := mk()
	// "every such well-typed program is accepted" is checked by the driver
	// (a rejected shape never gets here); the inferred metric types are part
	// of the observable result
	for i, t := range types {
		if t >= 0 {
			vAssert(int(a.Metrics[i].Type) == t, "C01.metric-has-the-type-of-the-values-assigned-to-it")
		}
	}
	vmApplyPre(a, vmSymPre(a, "pre"))
	b := mk()
	vmCopyState(b, a)
	f := mk()
	vmCopyState(f, a)
	va := New(name, a, false, nil, false, false)
	va.HardCrash = true
	l := vmSymMatch(caps, "l")
	rApplyMatch(a, pats, l)
	now := vmNow()
	ea, _ := vmLine(va, name)

	ref := rRun(b, prog, l, now, false)
	alt := rRun(f, prog, l, now, true)
	// listed known finding: `otherwise` after/inside an else body follows one
	// global matched flag instead of the scope rule; its region is exactly
	// the lines on which the two schemes decide an `otherwise` differently
	vKnown("C01-otherwise-else-scope", !rSameDecisions(ref.otherw, alt.otherw))
	eb := int64(0)
	if ref.err {
		eb = 1
	}
	vAssert(ea == eb, "C01.runtime-error-aborts-the-line-exactly-when-the-reference-does")
	vmSameMetrics(a, b, "C01.metrics-equal-the-reference-semantics")
	vObserve("errs", ea)
}
