package vm

import (
	"regexp"
	"time"
)

// vSetMatch makes FindStringSubmatch on re return result (nil = no match).
func vSetMatch(re *regexp.Regexp, result []string)

// vSetMatchOn makes FindStringSubmatch(subject) on re return result.
func vSetMatchOn(re *regexp.Regexp, subject string, result []string)

// vmNow is the wall clock as the code under test sees it (the engine's clock
// model; natively the rewritten call sites' clock).
func vmNow() time.Time { return time.Now() }
