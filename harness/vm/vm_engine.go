package vm

import "regexp"

// vSetMatch makes FindStringSubmatch on re return result (nil = no match).
func vSetMatch(re *regexp.Regexp, result []string)
