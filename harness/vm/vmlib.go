package vm

import (
	"context"
	"strings"
	"time"

	"github.com/google/mtail/internal/logline"
	"github.com/google/mtail/internal/metrics"
	"github.com/google/mtail/internal/metrics/datum"
	"github.com/google/mtail/internal/runtime/code"
)

// Shared machinery of the VM harness family (C01 C04 C05 C07 C25).

// capture classes (assigned by the driver from the capture group's pattern)
const (
	capDigits   = 0 // \d+        1..2 digits
	capSigned   = 1 // -?\d+      optional '-' then digits, 1..2 bytes
	capFloat    = 2 // \d+\.\d+   digit '.' digit
	capWord     = 3 // \w+        1..2 of [0-9A-Za-z_]
	capNonSpace = 4 // \S+        1..2 non-space bytes
	capAny      = 5 // .* / .+    0..2 bytes other than newline
	capLower    = 6 // [a-z]+     1..2 lower-case letters
	capDate8    = 7 // \d{8}      eight digits
	capSyslog15 = 8 // \w{3} [ \d]\d \d\d:\d\d:\d\d   fifteen bytes of that class
	capZoned21  = 9 // the same followed by " [+-]\d{4}": a stamp carrying its own zone
)

func isDigit(b byte) bool { return vAnd(b >= '0', b <= '9') }

func isWord(b byte) bool {
	return vOr(isDigit(b), vOr(vAnd(b >= 'a', b <= 'z'), vOr(vAnd(b >= 'A', b <= 'Z'), b == '_')))
}

// vmCapture returns a symbolic capture string of the given class.
func vmCapture(cls int, tag string) string {
	switch cls {
	case capDigits:
		n := nondetRange(tag+".len", 1, vParam("caplen", 2))
		b := make([]byte, n)
		for i := range b {
			b[i] = nondetByte(tag)
			vAssume(isDigit(b[i]))
		}
		return string(b)
	case capSigned:
		n := nondetRange(tag+".len", 1, vParam("caplen", 2))
		b := make([]byte, n)
		for i := range b {
			b[i] = nondetByte(tag)
			if i == 0 && n == 2 {
				vAssume(vOr(b[i] == '-', isDigit(b[i])))
			} else {
				vAssume(isDigit(b[i]))
			}
		}
		return string(b)
	case capFloat:
		b := []byte{nondetByte(tag), '.', nondetByte(tag)}
		vAssume(isDigit(b[0]))
		vAssume(isDigit(b[2]))
		return string(b)
	case capWord:
		n := nondetRange(tag+".len", 1, vParam("caplen", 2))
		b := make([]byte, n)
		for i := range b {
			b[i] = nondetByte(tag)
			vAssume(isWord(b[i]))
		}
		return string(b)
	case capNonSpace:
		n := nondetRange(tag+".len", 1, vParam("caplen", 2))
		b := make([]byte, n)
		for i := range b {
			b[i] = nondetByte(tag)
			vAssume(b[i] > ' ')
			vAssume(b[i] < 0x7f)
		}
		return string(b)
	case capDate8:
		b := make([]byte, 8)
		for i := range b {
			b[i] = nondetByte(tag)
			vAssume(isDigit(b[i]))
		}
		return string(b)
	case capZoned21:
		b := make([]byte, 21)
		for i := range b {
			b[i] = nondetByte(tag)
		}
		vAssume(vAnd(isWord(b[0]), vAnd(isWord(b[1]), isWord(b[2]))))
		vAssume(vAnd(b[3] == ' ', vAnd(b[6] == ' ', vAnd(b[9] == ':', vAnd(b[12] == ':', b[15] == ' ')))))
		vAssume(vOr(b[4] == ' ', isDigit(b[4])))
		vAssume(vOr(b[16] == '+', b[16] == '-'))
		for _, i := range []int{5, 7, 8, 10, 11, 13, 14, 17, 18, 19, 20} {
			vAssume(isDigit(b[i]))
		}
		return string(b)
	case capSyslog15:
		b := make([]byte, 15)
		for i := range b {
			b[i] = nondetByte(tag)
		}
		vAssume(vAnd(isWord(b[0]), vAnd(isWord(b[1]), isWord(b[2]))))
		vAssume(vAnd(b[3] == ' ', vAnd(b[6] == ' ', vAnd(b[9] == ':', b[12] == ':'))))
		vAssume(vOr(b[4] == ' ', isDigit(b[4])))
		for _, i := range []int{5, 7, 8, 10, 11, 13, 14} {
			vAssume(isDigit(b[i]))
		}
		return string(b)
	case capLower:
		n := nondetRange(tag+".len", 1, vParam("caplen", 2))
		b := make([]byte, n)
		for i := range b {
			b[i] = nondetByte(tag)
			vAssume(vAnd(b[i] >= 'a', b[i] <= 'z'))
		}
		return string(b)
	}
	n := nondetRange(tag+".len", 0, vParam("caplen", 2))
	b := make([]byte, n)
	for i := range b {
		b[i] = nondetByte(tag)
		vAssume(b[i] != '\n')
		vAssume(b[i] < 0x80)
	}
	return string(b)
}

// vmMatch is one line's match outcome for every pattern of a program.
type vmMatch [][]string // per regexp: nil = no match, else [whole, cap1, ...]

// vmSymMatch chooses, per pattern, whether it matches and its captures.
func vmSymMatch(caps [][]int, tag string) vmMatch {
	m := make(vmMatch, len(caps))
	for i := range caps {
		if nondetRange(tag+".match", 0, 1) == 1 {
			res := []string{"WHOLE"}
			for _, cls := range caps[i] {
				res = append(res, vmCapture(cls, tag+".cap"))
			}
			m[i] = res
		}
	}
	return m
}

func vmApplyMatch(obj *code.Object, m vmMatch) {
	for i, re := range obj.Regexps {
		vSetMatch(re, m[i])
	}
}

// vmPreState gives every metric an arbitrary accumulated state: scalar
// metrics hold any value; a dimensioned metric holds zero or one label set
// with a symbolic one-letter label per key.
type vmPre struct {
	has    []bool
	labels [][]string
	ival   []int64
	fval   []float64
	sval   []string
}

func vmSymPre(obj *code.Object, tag string) *vmPre {
	p := &vmPre{}
	for _, m := range obj.Metrics {
		has := vParam("prehas", 0) == 1 || nondetRange(tag+".has", 0, 1) == 1
		var labels []string
		for range m.Keys {
			b := nondetByte(tag + ".label")
			vAssume(vAnd(b >= 'a', b <= 'z'))
			labels = append(labels, string([]byte{b}))
		}
		p.has = append(p.has, has)
		p.labels = append(p.labels, labels)
		p.ival = append(p.ival, nondetInt64(tag+".ival"))
		p.fval = append(p.fval, nondetFloat64(tag+".fval"))
		sb := nondetByte(tag + ".sval")
		vAssume(vAnd(sb >= 'a', sb <= 'z'))
		p.sval = append(p.sval, string([]byte{sb}))
	}
	return p
}

func vmApplyPre(obj *code.Object, p *vmPre) {
	for i, m := range obj.Metrics {
		if !p.has[i] || m.Kind == metrics.Histogram {
			continue
		}
		d, err := m.GetDatum(p.labels[i]...)
		if err != nil {
			vAssert(false, "VM.setup")
			continue
		}
		switch x := d.(type) {
		case *datum.Int:
			x.Value, x.Time = p.ival[i], 1000
		case *datum.Float:
			x.Set(p.fval[i], zeroTime())
			x.Time = 1000
		case *datum.String:
			x.Set(p.sval[i], zeroTime())
			x.Time = 1000
		}
	}
}

func zeroTime() time.Time { return time.Time{} }

// vmLine runs one line; returns whether a runtime error was raised.
func vmLine(v *VM, name string) (errs int64, msg string) {
	before := vExpvar("prog_runtime_errors_total", name)
	v.ProcessLogLine(context.Background(), logline.New(context.Background(), "file.log", "LINE"))
	return vExpvar("prog_runtime_errors_total", name) - before, v.runtimeError
}

// the VM's explicit checked runtime conditions, by message prefix
var vmAllowedErrors = []string{
	"conversion of ",            // string -> int/float in Pop*
	"strconv.",                  // S2i / S2f
	"strptime (",                // time conversion
	"Divide by zero",            // Idiv / Imod
	"shift int out of range",    // Shl / Shr
	"int32 out of range",        // strtol base
	"Not enough capture groups", // capture group of an unmatched pattern
	"No datum for given labelvalues", // delayed delete of a missing datum
}

func vmErrorAllowed(msg string) bool {
	for _, p := range vmAllowedErrors {
		if strings.HasPrefix(msg, p) {
			return true
		}
	}
	return false
}

// vmSameMetrics compares the observable state of two instances of a program.
func vmSameMetrics(a, b *code.Object, id string) {
	for i := range a.Metrics {
		ma, mb := a.Metrics[i], b.Metrics[i]
		vAssert(len(ma.LabelValues) == len(mb.LabelValues), id+".label-sets")
		if len(ma.LabelValues) != len(mb.LabelValues) {
			continue
		}
		for j := range ma.LabelValues {
			la, lb := ma.LabelValues[j], mb.LabelValues[j]
			for k := range la.Labels {
				vAssert(la.Labels[k] == lb.Labels[k], id+".labels")
			}
			vAssert(la.Expiry == lb.Expiry, id+".expiry")
			switch x := la.Value.(type) {
			case *datum.Int:
				vAssert(x.Value == lb.Value.(*datum.Int).Value, id+".value")
				vmSameTime(x.Time, lb.Value.(*datum.Int).Time, id)
			case *datum.Float:
				vAssert(vFloatSame(x.Get(), lb.Value.(*datum.Float).Get()), id+".value")
				vmSameTime(x.Time, lb.Value.(*datum.Float).Time, id)
			case *datum.String:
				vAssert(x.Value == lb.Value.(*datum.String).Value, id+".value")
				vmSameTime(x.Time, lb.Value.(*datum.String).Time, id)
			case *datum.Buckets:
				y := lb.Value.(*datum.Buckets)
				vAssert(x.Count == y.Count && vFloatSame(x.Sum, y.Sum), id+".value")
			}
		}
	}
}

// timestamps taken from the wall clock differ by the run time between the
// two executions; a leaked parsed timestamp differs arbitrarily.
func vmSameTime(a, b int64, id string) {
	d := a - b
	vAssert(vAnd(d < 3600e9, d > -3600e9), id+".timestamp")
}

// vmCopyState makes dst's metrics hold the same values as src's.
func vmCopyState(dst, src *code.Object) {
	for i, ms := range src.Metrics {
		md := dst.Metrics[i]
		// drop what the constructor created
		for len(md.LabelValues) > 0 {
			if md.RemoveDatum(md.LabelValues[0].Labels...) != nil {
				vAssert(false, "VM.setup")
				return
			}
		}
		for _, lv := range ms.LabelValues {
			d, err := md.GetDatum(lv.Labels...)
			if err != nil {
				vAssert(false, "VM.setup")
				return
			}
			md.LabelValues[len(md.LabelValues)-1].Expiry = lv.Expiry
			switch x := lv.Value.(type) {
			case *datum.Int:
				y := d.(*datum.Int)
				y.Value, y.Time = x.Value, x.Time
			case *datum.Float:
				y := d.(*datum.Float)
				y.Valuebits, y.Time = x.Valuebits, x.Time
			case *datum.String:
				y := d.(*datum.String)
				y.Value, y.Time = x.Value, x.Time
			case *datum.Buckets:
				y := d.(*datum.Buckets)
				for k := range x.Buckets {
					y.Buckets[k].Count = x.Buckets[k].Count
				}
				y.Count, y.Sum, y.Time = x.Count, x.Sum, x.Time
			}
		}
	}
}
