package vm

import (
	"time"

	"github.com/google/mtail/internal/metrics/datum"
	"github.com/google/mtail/internal/runtime/code"
)

// C07: timestamps follow strptime/settime and default to processing time.
//
// Programs of this family are a sequence of top-level blocks
//     /K<i>=(...)/ { [strptime($1, LAYOUT) | settime(src)] ; g = timestamp() ; c++ }
// over the metrics counter c (0), gauge g (1) and, for settime, gauge src (2).
// The oracle below is the property's sentence evaluated block by block.

const (
	c07None     = 0
	c07Strptime = 1
	c07Settime  = 2
)

type c07Block struct {
	kind   int
	layout string
}

// c07Parse is "the instant obtained by parsing value with layout in the
// configured time zone, with a zero year replaced by the current year when
// that option is on".
func c07Parse(layout, value string, loc *time.Location, useYear bool, now time.Time) (time.Time, bool) {
	var tm time.Time
	var err error
	if loc != nil {
		tm, err = time.ParseInLocation(layout, value, loc)
	} else {
		tm, err = time.Parse(layout, value)
	}
	if err != nil {
		return tm, false
	}
	if useYear && tm.Year() == 0 {
		cur := now
		if loc != nil {
			cur = now.In(loc)
		}
		tm = tm.AddDate(cur.Year(), 0, 0)
	}
	return tm, true
}

func c07IntDatum(d datum.Datum) *datum.Int { return d.(*datum.Int) }

func vmCheckTime(mk func() *code.Object, caps [][]int, name string, blocks []c07Block) {
	vmCheckTimeWith(mk, caps, name, blocks, nil)
}

// vmCheckTimeKnown is the witness of the listed known finding: the value
// 00010101 parses (layout 20060102) to the year-1 zero instant, which the time
// register uses as its "unset" mark, so timestamp() returns the wall clock.
func vmCheckTimeKnown(mk func() *code.Object, caps [][]int, name string, blocks []c07Block) {
	vmCheckTimeWith(mk, caps, name, blocks, vmMatch{[]string{"WHOLE", "00010101"}, nil})
}

// vmCheckTimeWith: fixed, when non-nil, is a concrete line (used for the
// witness of the listed known finding).
func vmCheckTimeWith(mk func() *code.Object, caps [][]int, name string, blocks []c07Block, fixed vmMatch) {
	vClockFreeze()
	obj := mk()
	vmApplyPre(obj, vmSymPre(obj, "pre"))
	useYear := nondetRange("syslog-current-year", 0, 1) == 1
	var loc *time.Location
	switch nondetRange("zone", 0, vParam("zones", 2)) {
	case 1:
		loc = time.FixedZone("E", 9*3600)
	case 2:
		loc = time.FixedZone("W", -(3*3600 + 1800))
	}
	v := New(name, obj, useYear, loc, false, false)
	v.HardCrash = true
	// an arbitrary earlier line: what was parsed before must not matter
	if fixed == nil {
		vmApplyMatch(obj, vmSymMatch(caps, "h"))
		vmLine(v, name)
	}

	cm, gm := obj.Metrics[0], obj.Metrics[1]
	cdat, err1 := cm.GetDatum()
	gdat, err2 := gm.GetDatum()
	if err1 != nil || err2 != nil {
		vAssert(false, "VM.setup")
		return
	}
	cd, gd := c07IntDatum(cdat), c07IntDatum(gdat)
	expC, expCT, expG, expGT := cd.Value, cd.Time, gd.Value, gd.Time
	var src int64
	if len(obj.Metrics) > 2 {
		sd, err := obj.Metrics[2].GetDatum()
		if err != nil {
			vAssert(false, "VM.setup")
			return
		}
		src = c07IntDatum(sd).Value
	}

	l := fixed
	if l == nil {
		l = vmSymMatch(caps, "l")
	}
	vmApplyMatch(obj, l)
	now := vmNow()
	errs, _ := vmLine(v, name)

	var reg time.Time
	set := false
	expErr := int64(0)
	for i, b := range blocks {
		if l[i] == nil {
			continue
		}
		switch b.kind {
		case c07Strptime:
			tm, ok := c07Parse(b.layout, l[i][1], loc, useYear, now)
			if !ok {
				expErr = 1
			} else {
				// the year-1 zero instant is the register's "unset" mark: a
				// value that parses to exactly it reads as unset (listed
				// known finding, witnessed by its own concrete job)
				vKnown("C07-strptime-of-reserved-instant", tm.IsZero())
				if fixed == nil {
					vAssume(!tm.IsZero())
				}
				reg, set = tm, true
			}
		case c07Settime:
			// the property excludes the one instant reserved to mean "unset"
			vAssume(src != -62135596800)
			reg, set = time.Unix(src, 0), true
		}
		if expErr == 1 {
			break
		}
		inst := now
		if set {
			inst = reg
		}
		expG, expGT = inst.Unix(), inst.UnixNano()
		expC, expCT = expC+1, inst.UnixNano()
	}
	vAssert(errs == expErr, "C07.runtime-error-iff-the-value-does-not-parse")
	vAssert(gd.Value == expG, "C07.timestamp()-returns-parsed-or-set-instant-else-wall-clock")
	vAssert(cd.Value == expC, "C07.blocks-executed")
	vAssert(gd.Time == expGT, "C07.datum-updated-on-the-line-carries-the-instant")
	vAssert(cd.Time == expCT, "C07.datum-updated-on-the-line-carries-the-instant")
	vObserve("g", gd.Value)
	vObserve("errs", errs)
}
