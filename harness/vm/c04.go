package vm

import "github.com/google/mtail/internal/runtime/code"

// C04: accepted programs never fault inside the VM; C25(b): the runtime
// error counter moves by exactly one per aborted line.  One line from an
// arbitrary metric state; which patterns match and what they capture is
// symbolic.
func vmCheckNoFault(mk func() *code.Object, caps [][]int, name string) {
	obj := mk()
	vmApplyPre(obj, vmSymPre(obj, "pre"))
	vmApplyMatch(obj, vmSymMatch(caps, "m"))
	v := New(name, obj, false, nil, false, false)
	v.HardCrash = true
	errs, msg := vmLine(v, name)
	vAssert(v.t.pc >= 0 && v.t.pc <= len(v.prog), "C04.pc-in-range")
	if errs > 0 {
		vAssert(vmErrorAllowed(msg), "C04.only-explicit-checked-runtime-errors")
	}
	vAssert(errs == 0 || errs == 1, "C25.runtime-error-counted-once")
	vAssert((msg != "") == (errs == 1), "C25.runtime-error-counter-matches-errors-raised")
	vObserve("errs", errs)
}

// C05: a line's effect does not depend on earlier lines except through
// metrics.  Instance A processes one earlier line (arbitrary outcome), then
// the line; instance B is a fresh VM whose metrics were given A's values.
func vmCheckHistory(mk func() *code.Object, caps [][]int, name string) {
	// the wall clock is not part of the comparison: both instances see one instant
	vClockFreeze()
	a := mk()
	vmApplyPre(a, vmSymPre(a, "pre"))
	va := New(name, a, false, nil, false, false)
	va.HardCrash = true
	vmApplyMatch(a, vmSymMatch(caps, "h"))
	vmLine(va, name)

	b := mk()
	vmCopyState(b, a)
	vb := New(name, b, false, nil, false, false)
	vb.HardCrash = true

	l := vmSymMatch(caps, "l")
	vmApplyMatch(a, l)
	ea, _ := vmLine(va, name)
	vmApplyMatch(b, l)
	eb, _ := vmLine(vb, name)
	vAssert(ea == eb, "C05.runtime-error-exactly-when-a-fresh-copy-raises-one")
	// (C25) the count moves on this line exactly as it does for the fresh
	// copy, whose single-line count the C04 harness shows to be exact
	vAssert(ea == eb, "C25.runtime-errors-counted-on-every-line-whatever-came-before")
	vmSameMetrics(a, b, "C05.same-effect-as-fresh-copy")
	vObserve("errs", ea)
}
