package vm

import (
	"regexp"
	"time"

	"github.com/google/mtail/internal/metrics/datum"
)

func init() { datum.VerifNow = verifNow }

func vmNow() time.Time { return verifNow() }

var verifMatches = map[*regexp.Regexp][]string{}
var verifMatchSet = map[*regexp.Regexp]bool{}

func vSetMatch(re *regexp.Regexp, result []string) {
	verifMatches[re], verifMatchSet[re] = result, true
}

type verifMatchOnEntry struct {
	subject string
	result  []string
}

var verifMatchOn = map[*regexp.Regexp][]verifMatchOnEntry{}

func vSetMatchOn(re *regexp.Regexp, subject string, result []string) {
	verifMatchOn[re] = append(verifMatchOn[re], verifMatchOnEntry{subject, result})
}

// verifFindStringSubmatch replaces re.FindStringSubmatch at the VM's call
// sites for replay: the harness table decides the outcome, as in the engine.
func verifFindStringSubmatch(re *regexp.Regexp, s string) []string {
	for _, en := range verifMatchOn[re] {
		if en.subject == s {
			return en.result
		}
	}
	if verifMatchSet[re] {
		return verifMatches[re]
	}
	return re.FindStringSubmatch(s)
}
