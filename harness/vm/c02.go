package vm

import (
	"context"

	"github.com/google/mtail/internal/logline"
	"github.com/google/mtail/internal/metrics"
	"github.com/google/mtail/internal/metrics/datum"
	"github.com/google/mtail/internal/runtime/code"
	"github.com/google/mtail/internal/runtime/compiler/ast"
	"github.com/google/mtail/internal/runtime/compiler/opt"
	"github.com/google/mtail/internal/runtime/compiler/parser"
)

// C02: constant folding never changes results.  The folded side is the real
// opt.Optimise on a BinaryExpr of two literals with symbolic values; the
// unfolded side is the real VM executing the bytecode that the working tree's
// compiler produced WITHOUT optimisation for `g = A op B`, with the two
// literal operands replaced by the same symbols.

func c02Check(obj *code.Object, op int, lhs, rhs ast.Node, rhsZero bool) {
	folded, ferr := opt.Optimise(&ast.BinaryExpr{LHS: lhs, RHS: rhs, Op: op})

	vSetMatch(obj.Regexps[0], []string{"x"})
	v := New("prog", obj, false, nil, false, false)
	v.HardCrash = true
	v.ProcessLogLine(context.Background(), logline.New(context.Background(), "f", "x"))
	rtErrs := vExpvar("prog_runtime_errors_total", "prog")
	g := obj.Metrics[0]

	rejected := ferr != nil
	mayReject := (op == parser.DIV || op == parser.MOD) && rhsZero
	vAssert(rejected == mayReject, "C02.rejects-only-division-or-modulus-by-literal-zero")
	if rejected {
		return
	}
	vAssert(rtErrs == 0, "C02.no-runtime-error-where-the-fold-is-accepted")
	if rtErrs != 0 || len(g.LabelValues) != 1 {
		vAssert(len(g.LabelValues) == 1, "C02.unfolded-program-sets-the-gauge")
		return
	}
	d := g.LabelValues[0].Value
	switch lit := folded.(type) {
	case *ast.IntLit:
		vAssert(g.Type == metrics.Int, "C02.folded-literal-has-the-expression-type")
		if g.Type == metrics.Int {
			vAssert(datum.GetInt(d) == lit.I, "C02.folded-value-equals-runtime-value")
			vObserve("int", lit.I)
		}
	case *ast.FloatLit:
		vAssert(g.Type == metrics.Float, "C02.folded-literal-has-the-expression-type")
		if g.Type == metrics.Float {
			vAssert(vFloatSame(datum.GetFloat(d), lit.F), "C02.folded-value-equals-runtime-value")
			vObserve("float", lit.F)
		}
	default:
		vAssert(false, "C02.constant-expression-is-folded-to-a-literal")
	}
}

// grids of boundary values for the concrete supplement (uninterpreted
// math.Pow / math.Mod cannot distinguish two different implementations)
var c02Ints = []int64{0, 1, -1, 2, 3, 7, 10, 35, 53, 63, 64, 1 << 53, 1<<53 + 1, 9223372036854775807, -9223372036854775808}
var c02Floats = []float64{0, 1, -1, 2.5, 0.5, 3, 35, 1e300, -1e300, 4.9e-324}

func c02Int(tag string) int64     { return c02Ints[nondetRange(tag, 0, len(c02Ints)-1)] }
func c02Float(tag string) float64 { return c02Floats[nondetRange(tag, 0, len(c02Floats)-1)] }
