package mtail

func c19Warm() {}
