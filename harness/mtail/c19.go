package mtail

import (
	"context"
	"sync"

	"github.com/google/mtail/internal/logline"
	"github.com/google/mtail/internal/metrics"
	"github.com/google/mtail/internal/metrics/datum"
	"github.com/google/mtail/internal/runtime"
	"github.com/google/mtail/internal/tailer"
)

// C19: a one-shot run processes every line of every file once and then ends.
//
// runtime.New and tailer.New (one-shot) are wired as mtail.New wires them: one
// unbuffered lines channel, one WaitGroup; Run is wg.Wait.  The programs and
// the log files live in the model directory; the files' bytes are symbolic.
// After the run every program must have counted exactly the lines of the
// property's sentence (split at newlines, plus a non-empty last fragment), per
// file, and nothing may be left running.

const (
	lvAll    = "counter n\nn++\n"
	lvByFile = "counter f by name\nf[getfilename()]++\n"
)

// c19Waker never wakes anybody (a one-shot run does not poll).
type c19Waker struct{}

func (c19Waker) Wake() <-chan struct{} { return nil }

func c19Bytes(tag string, maxn int) []byte {
	n := nondetRange(tag+".len", 0, maxn)
	b := make([]byte, n)
	for i := range b {
		b[i] = nondetByte(tag)
	}
	return b
}

// c19Lines is the number of lines in a file: one per newline, plus the last
// fragment when it is not empty.
func c19Lines(b []byte) int64 {
	n := int64(0)
	start := 0
	for i := range b {
		if b[i] == '\n' {
			n++
			start = i + 1
		}
	}
	if start < len(b) {
		n++
	}
	return n
}

func c19Int(m *metrics.Metric, labels ...string) int64 {
	if m == nil {
		return -1
	}
	m.RLock()
	lv := m.FindLabelValueOrNil(labels)
	m.RUnlock()
	if lv == nil {
		return 0
	}
	return datum.GetInt(lv.Value)
}

func HarnessC19OneShot() {
	// (natively the first signal.Notify starts Go's own signal-watching
	// goroutine, which never ends: start it before counting)
	c19Warm()
	base := vBlockedGoroutines()
	vClockFreeze()
	root := vfsRoot()
	maxn := vParam("maxn", 3)
	vfsWrite("all.mtail", lvAll)
	vfsWrite("byfile.mtail", lvByFile)
	a := c19Bytes("a", maxn)
	vfsWrite("a.log", string(a))
	var b []byte
	two := nondetRange("files", 1, 2) == 2
	if two {
		b = c19Bytes("b", maxn)
		vfsWrite("b.log", string(b))
	}
	store := metrics.NewStore()
	lines := make(chan *logline.LogLine)
	var wg sync.WaitGroup
	ctx, cancel := context.WithCancel(context.Background())
	r, err := runtime.New(lines, &wg, root, store)
	if err != nil || r == nil {
		vAssert(false, "L.setup")
		return
	}
	// (patterns and wakers as cmd/mtail passes them: one pattern per -logs
	// flag, both wakers always set)
	pats := []string{root + "/*.log"}
	if nondetRange("patterns", 0, 1) == 1 {
		pats = []string{root + "/a.log", root + "/b.log"}
	}
	t, err := tailer.New(ctx, &wg, lines, tailer.OneShot, tailer.LogPatterns(pats), tailer.LogPatternPollWaker(c19Waker{}), tailer.LogstreamPollWaker(c19Waker{}))
	if err != nil || t == nil {
		vAssert(false, "L.setup")
		return
	}
	wg.Wait() // Server.Run
	cancel()
	la, lb := c19Lines(a), c19Lines(b)
	vAssert(c19Int(store.FindMetricOrNil("n", "all.mtail")) == la+lb, "C19.every-line-of-every-file-is-processed-exactly-once")
	byf := store.FindMetricOrNil("f", "byfile.mtail")
	vAssert(c19Int(byf, root+"/a.log") == la, "C19.every-line-of-every-file-is-processed-exactly-once-by-every-program")
	if two {
		vAssert(c19Int(byf, root+"/b.log") == lb, "C19.every-line-of-every-file-is-processed-exactly-once-by-every-program")
	}
	vObserve("lines", la+lb)
	vQuiesce()
	vAssert(vBlockedGoroutines() == base, "C19.all-components-shut-down-and-the-run-returns")
}
