package mtail

import (
	"os"
	"os/signal"
	"syscall"
)

func c19Warm() {
	c := make(chan os.Signal, 1)
	signal.Notify(c, syscall.SIGHUP)
	signal.Stop(c)
}
