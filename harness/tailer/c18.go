package tailer

import (
	"context"
	"sync"

	"github.com/google/mtail/internal/logline"
)

// C18: every matching log path is tailed, once.
//
// The real Tailer (New, AddPattern, the pattern poll goroutines, doPatternGlob,
// Ignore, TailPath, the per-stream forwarding goroutines) and the real file
// streams run over the model file system (natively: a temporary directory)
// with two overlapping glob patterns and an ignore expression.  After every
// step of a history of file-system edits the pattern pollers and then the
// streams are woken and everything is left to settle.  Then the tailer's
// streams must be exactly the existing regular files that match a pattern and
// are not ignored, and a line appended to each of them must arrive exactly
// once.

// c18Waker wakes its sleepers on demand.
type c18Waker struct {
	mu sync.Mutex
	ch chan struct{}
}

func newC18Waker() *c18Waker { return &c18Waker{ch: make(chan struct{})} }

func (w *c18Waker) Wake() <-chan struct{} {
	w.mu.Lock()
	defer w.mu.Unlock()
	return w.ch
}

func (w *c18Waker) kick() {
	w.mu.Lock()
	close(w.ch)
	w.ch = make(chan struct{})
	w.mu.Unlock()
}

// the universe of names: five fixed ones and one whose 1..5 bytes are
// symbolic (slot "S", index 6 - filled in by the harness)
var c18Names = []string{"a.log", "b.log", "ab", "c.txt", "a.gz", "d.log", ""}

const c18Sym = 6

// c18Eligible is the property's sentence for the patterns *.log and a* with
// the ignore expression \.gz$: the name ends in ".log" or starts with "a",
// and does not end in ".gz".
func c18Eligible(name string) bool {
	n := len(name)
	if n >= 3 && vStrEq(name[n-3:], ".gz") {
		return false
	}
	if n >= 4 && vStrEq(name[n-4:], ".log") {
		return true
	}
	return n >= 1 && name[0] == 'a'
}

// c18SymName: 1..maxlen arbitrary bytes that can name a file (no '/', no
// NUL, not "." or ".."), different from the fixed names; '%' is excluded
// (URL escapes are not modelled by the engine's url.Parse).
func c18SymName(maxLen int) string {
	n := nondetRange("name.len", 1, maxLen)
	b := make([]byte, n)
	for i := range b {
		b[i] = nondetByte("name.byte")
		vAssume(b[i] != '/' && b[i] != 0 && b[i] != '%')
	}
	s := string(b)
	vAssume(!vStrEq(s, ".") && !vStrEq(s, ".."))
	for _, f := range c18Names[:c18Sym] {
		vAssume(!vStrEq(s, f))
	}
	return s
}

// c18Line is the line written to file i.
func c18Line(i int) string { return string(rune('A' + i)) }

func c18Settle() {
	vQuiesce()
	vQuiesce()
	vQuiesce()
}

func HarnessC18History() {
	root := vfsRoot()
	c18Names[c18Sym] = c18SymName(vParam("maxlen", 5))
	lines := make(chan *logline.LogLine, 256)
	var wg sync.WaitGroup
	pw, sw := newC18Waker(), newC18Waker()
	ctx, cancel := context.WithCancel(context.Background())
	// what exists: 0 absent, 1 regular file, 2 directory
	kind := make([]int, len(c18Names))
	if nondetRange("initial", 0, 1) == 1 {
		// a file that is there before the tailer starts
		vfsWrite("a.log", "")
		kind[0] = 1
	}
	t, err := New(ctx, &wg, lines, LogPatterns([]string{root + "/*.log", root + "/a*"}), IgnoreRegex(`\.gz$`), LogPatternPollWaker(pw), LogstreamPollWaker(sw))
	if err != nil || t == nil {
		vAssert(false, "L.setup")
		return
	}
	c18Settle()
	seq := 0
	steps := vParam("steps", 2)
	for s := 0; s <= steps; s++ {
		if s > 0 {
			switch op := nondetRange("op", 0, 4); op {
			case 0: // a file appears
				i := nondetRange("name", 0, len(c18Names)-1)
				if kind[i] == 0 {
					vfsWrite(c18Names[i], "")
					kind[i] = 1
				}
			case 1: // a file or directory goes away
				i := nondetRange("name", 0, len(c18Names)-1)
				if kind[i] != 0 {
					vfsRemove(c18Names[i])
					kind[i] = 0
				}
			case 2: // a directory with a matching name appears
				if kind[5] == 0 {
					vfsMkdir("d.log")
					kind[5] = 2
				}
			case 3: // a.log is renamed to b.log
				if kind[0] == 1 && kind[1] == 0 {
					vfsRename("a.log", "b.log")
					kind[0], kind[1] = 0, 1
				}
			case 4: // a poll without change
			}
		}
		// the next pattern poll, then a stream poll (streams of files that
		// went away end, renamed files are noticed)
		// (a step may also go by without a pattern poll - only the streams are
		// woken - so that several edits can fall between two pattern polls;
		// the property speaks about the state after a pattern poll)
		polled := s == 0 || s == steps || nondetRange("pattern-poll", 0, 1) == 1
		if polled {
			pw.kick()
			c18Settle()
		}
		sw.kick()
		c18Settle()
		if !polled {
			for len(lines) > 0 {
				<-lines
			}
			continue
		}
		// exactly the eligible existing regular files are tailed
		t.logstreamsMu.RLock()
		n := len(t.logstreams)
		want := 0
		for i, name := range c18Names {
			_, tailed := t.logstreams[root+"/"+name]
			if kind[i] == 1 && c18Eligible(name) {
				want++
				vAssert(tailed, "C18.matching-file-is-tailed-after-the-next-poll")
			} else {
				vAssert(!tailed, "C18.directories-ignored-and-non-matching-files-are-never-tailed")
			}
		}
		t.logstreamsMu.RUnlock()
		vAssert(n == want, "C18.nothing-else-is-tailed")
		// a line appended to every existing file arrives exactly once, from
		// the eligible files only
		seq++
		for i, name := range c18Names {
			if kind[i] == 1 {
				vfsAppend(name, c18Line(i)+"\n")
			}
		}
		sw.kick()
		c18Settle()
		got := map[string]int{}
		for len(lines) > 0 {
			l := <-lines
			got[l.Line]++
		}
		for i, name := range c18Names {
			if kind[i] == 1 && c18Eligible(name) {
				vAssert(got[c18Line(i)] == 1, "C18.each-line-of-a-tailed-file-is-delivered-exactly-once")
			} else {
				vAssert(got[c18Line(i)] == 0, "C18.no-line-from-a-file-that-is-not-to-be-tailed")
			}
		}
	}
	vObserve("streams", len(t.logstreams))
	// the tailer stops when cancelled
	cancel()
	pw.kick()
	sw.kick()
	c18Settle()
	wg.Wait()
	vAssert(vBlockedGoroutines() == 0, "C18.tailer-stops-when-cancelled")
}
