package tailer

import (
	"context"
	"sync"

	"github.com/google/mtail/internal/logline"
)

// C18: every matching log path is tailed, once.
//
// The real Tailer (New, AddPattern, the pattern poll goroutines, doPatternGlob,
// Ignore, TailPath, the per-stream forwarding goroutines) and the real file
// streams run over the model file system (natively: a temporary directory)
// with two overlapping glob patterns and an ignore expression.  After every
// step of a history of file-system edits the pattern pollers and then the
// streams are woken and everything is left to settle.  Then the tailer's
// streams must be exactly the existing regular files that match a pattern and
// are not ignored, and a line appended to each of them must arrive exactly
// once.

// c18Waker wakes its sleepers on demand.
type c18Waker struct {
	mu sync.Mutex
	ch chan struct{}
}

func newC18Waker() *c18Waker { return &c18Waker{ch: make(chan struct{})} }

func (w *c18Waker) Wake() <-chan struct{} {
	w.mu.Lock()
	defer w.mu.Unlock()
	return w.ch
}

func (w *c18Waker) kick() {
	w.mu.Lock()
	close(w.ch)
	w.ch = make(chan struct{})
	w.mu.Unlock()
}

// the universe of names and what the patterns *.log, a* and the ignore
// expression \.gz$ say about each
var c18Names = []string{"a.log", "b.log", "ab", "c.txt", "a.gz", "d.log"}

func c18Eligible(name string) bool {
	switch name {
	case "a.log", "b.log", "ab", "d.log":
		return true // a.log matches both patterns
	}
	return false // c.txt matches none, a.gz matches a* but is ignored
}

func c18Settle() {
	vQuiesce()
	vQuiesce()
	vQuiesce()
}

func HarnessC18History() {
	root := vfsRoot()
	lines := make(chan *logline.LogLine, 256)
	var wg sync.WaitGroup
	pw, sw := newC18Waker(), newC18Waker()
	ctx, cancel := context.WithCancel(context.Background())
	// what exists: 0 absent, 1 regular file, 2 directory
	kind := map[string]int{}
	if nondetRange("initial", 0, 1) == 1 {
		// a file that is there before the tailer starts
		vfsWrite("a.log", "")
		kind["a.log"] = 1
	}
	t, err := New(ctx, &wg, lines, LogPatterns([]string{root + "/*.log", root + "/a*"}), IgnoreRegex(`\.gz$`), LogPatternPollWaker(pw), LogstreamPollWaker(sw))
	if err != nil || t == nil {
		vAssert(false, "L.setup")
		return
	}
	c18Settle()
	seq := 0
	steps := vParam("steps", 2)
	for s := 0; s <= steps; s++ {
		if s > 0 {
			switch op := nondetRange("op", 0, 4); op {
			case 0: // a file appears
				n := c18Names[nondetRange("name", 0, len(c18Names)-1)]
				if kind[n] == 0 {
					vfsWrite(n, "")
					kind[n] = 1
				}
			case 1: // a file or directory goes away
				n := c18Names[nondetRange("name", 0, len(c18Names)-1)]
				if kind[n] != 0 {
					vfsRemove(n)
					kind[n] = 0
				}
			case 2: // a directory with a matching name appears
				if kind["d.log"] == 0 {
					vfsMkdir("d.log")
					kind["d.log"] = 2
				}
			case 3: // a.log is renamed to b.log
				if kind["a.log"] == 1 && kind["b.log"] == 0 {
					vfsRename("a.log", "b.log")
					kind["a.log"], kind["b.log"] = 0, 1
				}
			case 4: // a poll without change
			}
		}
		// the next pattern poll, then a stream poll (streams of files that
		// went away end, renamed files are noticed)
		pw.kick()
		c18Settle()
		sw.kick()
		c18Settle()
		// exactly the eligible existing regular files are tailed
		t.logstreamsMu.RLock()
		n := len(t.logstreams)
		want := 0
		for _, name := range c18Names {
			_, tailed := t.logstreams[root+"/"+name]
			if kind[name] == 1 && c18Eligible(name) {
				want++
				vAssert(tailed, "C18.matching-file-is-tailed-after-the-next-poll")
			} else {
				vAssert(!tailed, "C18.directories-ignored-and-non-matching-files-are-never-tailed")
			}
		}
		t.logstreamsMu.RUnlock()
		vAssert(n == want, "C18.nothing-else-is-tailed")
		// a line appended to every existing file arrives exactly once, from
		// the eligible files only
		seq++
		for _, name := range c18Names {
			if kind[name] == 1 {
				vfsAppend(name, name+"\n")
			}
		}
		sw.kick()
		c18Settle()
		got := map[string]int{}
		for len(lines) > 0 {
			l := <-lines
			got[l.Line]++
		}
		for _, name := range c18Names {
			if kind[name] == 1 && c18Eligible(name) {
				vAssert(got[name] == 1, "C18.each-line-of-a-tailed-file-is-delivered-exactly-once")
			} else {
				vAssert(got[name] == 0, "C18.no-line-from-a-file-that-is-not-to-be-tailed")
			}
		}
	}
	vObserve("streams", len(t.logstreams))
	// the tailer stops when cancelled
	cancel()
	pw.kick()
	sw.kick()
	c18Settle()
	wg.Wait()
	vAssert(vBlockedGoroutines() == 0, "C18.tailer-stops-when-cancelled")
}
