package logstream

import "time"

// c16Timeout bounds the wait for the real stream goroutine.
func c16Timeout() <-chan struct{} {
	c := make(chan struct{})
	go func() {
		time.Sleep(5 * time.Second)
		close(c)
	}()
	return c
}
