package logstream

// c16Timeout never fires under the engine's scheduler (a blocked harness is
// reported as a deadlock there).
func c16Timeout() <-chan struct{} { return nil }
