package logstream

import (
	"context"
	"os"
	"sync"
)

// C17 (named pipes): a pipe delivers all bytes written, in order, then ends.
//
// The real newFifoStream / fifoStream.stream goroutine and the LineReader run
// over a named pipe of the model file system (natively: a real fifo in a
// temporary directory).  A history of writer-side steps - open the writing
// end, write 1..2 arbitrary bytes, close it, wake the stream - is applied;
// after each step the stream is left to settle.  At the end the writer is
// closed (if it wrote anything the stream must end by itself) or the stream
// is cancelled.  Expected: the bytes written, split at newlines, each line
// once and in order, the unterminated tail once when the stream ends.

func c17Settle() {
	vQuiesce()
	vQuiesce()
	vQuiesce()
}

func HarnessC17Fifo() {
	const name = "pipe"
	path := vfsRoot() + "/" + name
	vfsMkfifo(name)
	fi, err := os.Stat(path)
	if err != nil {
		vAssert(false, "L.setup")
		return
	}
	ctx, cancel := context.WithCancel(context.Background())
	var wg sync.WaitGroup
	w := newHWaker()
	// a writer may already be there when the stream opens the pipe
	open := nondetRange("writer-first", 0, 1) == 1
	if open {
		vfifoOpen(name)
	}
	ls, err := newFifoStream(ctx, &wg, w, path, fi)
	if err != nil || ls == nil {
		vAssert(false, "L.setup")
		return
	}
	lines := ls.Lines()
	var got []string
	closed := false
	drain := func() {
		for !closed {
			select {
			case l, ok := <-lines:
				if !ok {
					closed = true
				} else {
					got = append(got, l.Line)
					// let the stream get to its next send or to its end
					vQuiesce()
				}
			default:
				return
			}
		}
	}
	c17Settle()
	drain()

	var data []byte
	wrote := false // the stream has read something: the next end of file ends it
	ended := false // the writer closed after data was read
	steps := vParam("steps", 3)
	for s := 0; s < steps && !ended; s++ {
		switch nondetRange("op", 0, 3) {
		case 0: // the writing end is opened
			if !open {
				vfifoOpen(name)
				open = true
			}
		case 1: // bytes are written
			if open {
				n := nondetRange("n", 1, 2)
				b := make([]byte, n)
				for i := range b {
					b[i] = nondetByte("byte")
				}
				vfifoWrite(name, string(b))
				data = append(data, b...)
				wrote = true
			}
		case 2: // the writing end is closed
			if open {
				vfifoClose(name)
				open = false
				if wrote {
					ended = true
				}
			}
		case 3: // a poll without change
		}
		w.kick()
		c17Settle()
		drain()
		if !ended {
			vAssert(!closed, "C17.stream-does-not-end-while-the-writer-may-still-write")
		}
	}
	if !ended {
		// tailing stops: the stream is cancelled
		cancel()
		w.kick()
		c17Settle()
		drain()
	}
	vAssert(closed, "C17.stream-ends-after-the-writer-closed-or-on-cancellation")
	want := specLines(data)
	vAssert(len(got) == len(want), "C17.every-line-and-the-tail-delivered-exactly-once")
	if len(got) == len(want) {
		for i := range want {
			vAssert(got[i] == want[i], "C17.lines-in-write-order-unchanged")
		}
	}
	cancel()
	if open {
		vfifoClose(name)
	}
	c17Settle()
	wg.Wait()
	vObserve("lines", len(got))
	vAssert(vBlockedGoroutines() == 0, "C17.stream-goroutines-end")
}

// c17Interleave: got is an interleaving of a and b that keeps each one's order.
func c17Interleave(got, a, b []string) bool {
	if len(got) == 0 {
		return len(a) == 0 && len(b) == 0
	}
	if len(a) > 0 && got[0] == a[0] && c17Interleave(got[1:], a[1:], b) {
		return true
	}
	if len(b) > 0 && got[0] == b[0] && c17Interleave(got[1:], a, b[1:]) {
		return true
	}
	return false
}

// HarnessC17Socket: a stream socket (unix) with up to two connections.  Every
// connection's bytes are delivered as its own lines, in its own order, the
// tail once when the connection closes (or the stream is cancelled); lines of
// different connections are never merged; the stream ends on cancellation
// after delivering everything it read.
func HarnessC17Socket() {
	addr := vfsRoot() + "/sock"
	ctx, cancel := context.WithCancel(context.Background())
	var wg sync.WaitGroup
	w := newHWaker()
	ls, err := newSocketStream(ctx, &wg, w, "unix", addr, OneShotDisabled)
	if err != nil || ls == nil {
		vAssert(false, "L.setup")
		return
	}
	lines := ls.Lines()
	var got []string
	closed := false
	drain := func() {
		for !closed {
			select {
			case l, ok := <-lines:
				if !ok {
					closed = true
				} else {
					got = append(got, l.Line)
					vQuiesce()
				}
			default:
				return
			}
		}
	}
	c17Settle()
	drain()
	ids := []int{-1, -1}
	open := []bool{false, false}
	data := [][]byte{nil, nil}
	steps := vParam("steps", 3)
	for s := 0; s < steps; s++ {
		k := nondetRange("conn", 0, 1)
		switch nondetRange("op", 0, 3) {
		case 0: // a peer connects
			if ids[k] < 0 {
				ids[k] = vnetDial("unix", addr)
				vAssert(ids[k] >= 0, "C17.listening-socket-accepts-connections")
				open[k] = ids[k] >= 0
			}
		case 1: // it writes
			if open[k] {
				n := nondetRange("n", 1, 2)
				b := make([]byte, n)
				for i := range b {
					b[i] = nondetByte("byte")
				}
				vnetWrite(ids[k], string(b))
				data[k] = append(data[k], b...)
			}
		case 2: // it closes its end
			if open[k] {
				vnetClose(ids[k])
				open[k] = false
			}
		case 3: // a poll without change
		}
		w.kick()
		c17Settle()
		drain()
		vAssert(!closed, "C17.socket-stream-does-not-end-before-cancellation")
	}
	// tailing stops
	cancel()
	w.kick()
	c17Settle()
	drain()
	c17Settle()
	drain()
	vAssert(closed, "C17.stream-ends-after-the-writer-closed-or-on-cancellation")
	wa, wb := specLines(data[0]), specLines(data[1])
	vAssert(len(got) == len(wa)+len(wb), "C17.every-line-and-the-tail-delivered-exactly-once")
	if len(got) == len(wa)+len(wb) {
		vAssert(c17Interleave(got, wa, wb), "C17.lines-of-different-connections-are-never-merged-and-keep-their-order")
	}
	for k := range ids {
		if open[k] {
			vnetClose(ids[k])
		}
	}
	c17Settle()
	wg.Wait()
	vObserve("lines", len(got))
	vAssert(vBlockedGoroutines() == 0, "C17.stream-goroutines-end")
}

// HarnessC17Dgram: a datagram socket (unixgram) with one sender.  The bytes
// of the datagrams, in sending order, are delivered as lines (a line may span
// datagrams), the tail once when the stream is cancelled; a zero-length
// datagram changes nothing; the stream ends on cancellation.
func HarnessC17Dgram() {
	addr := vfsRoot() + "/dsock"
	ctx, cancel := context.WithCancel(context.Background())
	var wg sync.WaitGroup
	w := newHWaker()
	ls, err := newDgramStream(ctx, &wg, w, "unixgram", addr, OneShotDisabled)
	if err != nil || ls == nil {
		vAssert(false, "L.setup")
		return
	}
	lines := ls.Lines()
	var got []string
	closed := false
	drain := func() {
		for !closed {
			select {
			case l, ok := <-lines:
				if !ok {
					closed = true
				} else {
					got = append(got, l.Line)
					vQuiesce()
				}
			default:
				return
			}
		}
	}
	c17Settle()
	drain()
	id := vnetDial("unixgram", addr)
	vAssert(id >= 0, "C17.listening-socket-accepts-connections")
	var data []byte
	steps := vParam("steps", 3)
	for s := 0; s < steps; s++ {
		if nondetRange("op", 0, 1) == 0 {
			n := nondetRange("n", 0, 2)
			b := make([]byte, n)
			for i := range b {
				b[i] = nondetByte("byte")
			}
			vnetWrite(id, string(b))
			data = append(data, b...)
		}
		w.kick()
		c17Settle()
		drain()
		vAssert(!closed, "C17.socket-stream-does-not-end-before-cancellation")
	}
	cancel()
	w.kick()
	c17Settle()
	drain()
	c17Settle()
	drain()
	vAssert(closed, "C17.stream-ends-after-the-writer-closed-or-on-cancellation")
	want := specLines(data)
	vAssert(len(got) == len(want), "C17.every-line-and-the-tail-delivered-exactly-once")
	if len(got) == len(want) {
		for i := range want {
			vAssert(got[i] == want[i], "C17.lines-in-write-order-unchanged")
		}
	}
	vnetClose(id)
	c17Settle()
	wg.Wait()
	vObserve("lines", len(got))
	vAssert(vBlockedGoroutines() == 0, "C17.stream-goroutines-end")
}
