package logstream

import (
	"io"

	"github.com/google/mtail/internal/logline"
)

// C15: line framing is independent of how bytes arrive.
// C25(a): log_lines_total[source] moves by exactly the number of lines sent.
// C16 (sub-claim): the Finish / continue-reading reuse protocol that
// filestream.go applies to one LineReader on truncation.

// symReader hands out the stream in arbitrary chunks: any 0 <= k <=
// min(len(p), rest) bytes per call (zero-length reads are allowed zeroBudget
// times), io.EOF once everything is consumed - on its own, or together with
// the last bytes.
type symReader struct {
	data       []byte
	pos        int
	zeroBudget int
}

func (r *symReader) Read(p []byte) (int, error) {
	rest := len(r.data) - r.pos
	if rest == 0 {
		return 0, io.EOF
	}
	hi := rest
	if len(p) < hi {
		hi = len(p)
	}
	lo := 1
	if r.zeroBudget > 0 {
		lo = 0
	}
	k := nondetRange("chunk", lo, hi)
	if k == 0 {
		r.zeroBudget--
	}
	copy(p[:k], r.data[r.pos:r.pos+k])
	r.pos += k
	if k > 0 && r.pos == len(r.data) && nondetRange("eof-with-data", 0, 1) == 1 {
		// the io.Reader contract allows the last bytes to arrive together
		// with io.EOF
		return k, io.EOF
	}
	return k, nil
}

// specLines is the specification: split at '\n', strip one trailing '\r'
// per line, then the non-empty remainder.
func specLines(data []byte) []string {
	var out []string
	start := 0
	for i := 0; i < len(data); i++ {
		if data[i] == '\n' {
			end := i
			if end > start && data[end-1] == '\r' {
				end--
			}
			out = append(out, string(data[start:end]))
			start = i + 1
		}
	}
	if start < len(data) {
		out = append(out, string(data[start:]))
	}
	return out
}

func symStream(tag string, n int) []byte {
	data := make([]byte, n)
	for i := range data {
		data[i] = nondetByte(tag)
	}
	return data
}

func drain(lines chan *logline.LogLine) []string {
	var got []string
	for len(lines) > 0 {
		l := <-lines
		got = append(got, l.Line)
	}
	return got
}

func feed(lr *LineReader, r *symReader) {
	for reads := 0; reads < len(r.data)+r.zeroBudget+2; reads++ {
		_, err := lr.ReadAndSend(nil)
		if err != nil {
			break
		}
	}
	vAssume(r.pos == len(r.data))
}

func compareLines(got, want []string, id string) {
	vObserve("nlines", len(got))
	vAssert(len(got) == len(want), id+".count")
	if len(got) == len(want) {
		for i := range got {
			vAssert(got[i] == want[i], id+".line")
		}
	}
}

func HarnessC15() {
	n := nondetRange("n", 0, vParam("maxn", 4))
	data := symStream("b", n)
	size := nondetRange("size", 1, vParam("maxsize", 3))
	lines := make(chan *logline.LogLine, 64)
	r := &symReader{data: data, zeroBudget: vParam("zeroreads", 1)}
	lr := NewLineReader("src", lines, r, size, nil)
	feed(lr, r)
	lr.Finish(nil)
	got := drain(lines)
	want := specLines(data)
	compareLines(got, want, "C15")
	vAssert(vExpvar("log_lines_total", "src") == int64(len(got)), "C25.log_lines_total")
}

// HarnessC16Reuse: reads of generation 1, Finish (truncation detected), reads
// of generation 2 on the same LineReader, Finish.  Each generation's
// unterminated fragment must be delivered once, on its own.
func HarnessC16Reuse() {
	n1 := nondetRange("n1", 0, vParam("maxn", 3))
	d1 := symStream("b1", n1)
	n2 := nondetRange("n2", 0, vParam("maxn", 3))
	d2 := symStream("b2", n2)
	size := nondetRange("size", 1, vParam("maxsize", 2))
	lines := make(chan *logline.LogLine, 64)
	r := &symReader{data: d1}
	lr := NewLineReader("src", lines, r, size, nil)
	feed(lr, r)
	lr.Finish(nil)
	// the file was truncated: same reader object, fresh contents
	r.data, r.pos = d2, 0
	feed(lr, r)
	lr.Finish(nil)
	got := drain(lines)
	want := append(specLines(d1), specLines(d2)...)
	compareLines(got, want, "C16.reuse")
	vAssert(vExpvar("log_lines_total", "src") == int64(len(got)), "C25.log_lines_total")
}
