package logstream

import (
	"context"
	"os"
	"sync"

	"github.com/google/mtail/internal/logline"
)

// C16: a tailed file delivers every appended line exactly once across
// truncation, rotation, deletion and re-creation.
//
// The real newFileStream / fileStream.stream goroutines and the LineReader
// run over the model file system (natively: a temporary directory).  After
// every step of the history the stream is woken and the harness waits until
// it is idle again ("the tailer has observed each step").  The expected lines
// are the property's sentence evaluated over the history.

// hWaker wakes the stream on demand and reports when it goes back to sleep.
type hWaker struct {
	mu      sync.Mutex
	ch      chan struct{}
	entered chan struct{}
}

func newHWaker() *hWaker {
	return &hWaker{ch: make(chan struct{}), entered: make(chan struct{}, 64)}
}

func (w *hWaker) Wake() <-chan struct{} {
	w.mu.Lock()
	c := w.ch
	w.mu.Unlock()
	select {
	case w.entered <- struct{}{}:
	default:
	}
	return c
}

func (w *hWaker) kick() {
	w.mu.Lock()
	close(w.ch)
	w.ch = make(chan struct{})
	w.mu.Unlock()
}

type c16Tail struct {
	w      *hWaker
	ls     LogStream
	lines  <-chan *logline.LogLine
	got    []string
	closed bool
}

// settle receives lines until the stream is idle (asked to be woken) or has
// ended (closed its channel).
func (t *c16Tail) settle() {
	if t.closed || t.lines == nil {
		return
	}
	for {
		select {
		case l, ok := <-t.lines:
			if !ok {
				t.closed = true
				return
			}
			t.got = append(t.got, l.Line)
		case <-t.w.entered:
			return
		case <-c16Timeout():
			vAssert(false, "C16.stream-settles-after-each-step")
			return
		}
	}
}

const c16Log = "log"

func c16Payload(tag string) string {
	b := nondetByte(tag)
	vAssume(b != '\n')
	return string([]byte{b})
}

func HarnessC16History() {
	path := vfsRoot() + "/" + c16Log
	// the file exists before tailing begins, possibly with earlier lines
	switch nondetRange("initial", 0, 1) {
	case 0:
		vfsWrite(c16Log, "")
	case 1:
		vfsWrite(c16Log, "old\n")
	}
	ctx, cancel := context.WithCancel(context.Background())
	var wg sync.WaitGroup
	t := &c16Tail{w: newHWaker()}
	start := func() {
		fi, err := os.Stat(path)
		if err != nil {
			vAssert(false, "L.setup")
			return
		}
		ls, err := newFileStream(ctx, &wg, t.w, path, fi, OneShotDisabled)
		if err != nil {
			vAssert(false, "L.setup")
			return
		}
		t.ls, t.lines, t.closed = ls, ls.Lines(), false
		t.settle()
	}
	start()

	var want []string
	pending := ""
	present := true
	flush := func() {
		if pending != "" {
			want = append(want, pending)
			pending = ""
		}
	}
	steps := vParam("steps", 3)
	for s := 0; s < steps; s++ {
		op := nondetRange("op", 0, 9)
		if !present && op != 7 {
			op = 8 // nothing can be done to a file that is not there
		}
		switch op {
		case 0: // a complete line
			p := c16Payload("payload")
			vfsAppend(c16Log, p+"\n")
			line := pending + p
			if n := len(line); n > 0 && line[n-1] == '\r' {
				line = line[:n-1]
			}
			want = append(want, line)
			pending = ""
		case 1: // an unterminated fragment
			p := c16Payload("payload")
			vfsAppend(c16Log, p)
			pending += p
		case 2: // a CRLF-terminated line
			p := c16Payload("payload")
			vfsAppend(c16Log, p+"\r\n")
			want = append(want, pending+p)
			pending = ""
		case 3: // truncation in place
			vfsTruncate(c16Log)
			flush()
		case 4: // rotation: rename away, create anew
			vfsRename(c16Log, "log.1")
			vfsWrite(c16Log, "")
			flush()
		case 5: // rotation: copy, then truncate in place
			vfsCopy(c16Log, "log.1")
			vfsTruncate(c16Log)
			flush()
		case 6: // deletion
			vfsRemove(c16Log)
			present = false
			flush()
		case 7: // re-creation: the tailer opens a new stream for the path
			if !present {
				vfsWrite(c16Log, "")
				present = true
				if t.closed {
					start()
					continue
				}
			}
		case 8: // a poll without change
		case 9: // a longer unterminated fragment
			p := c16Payload("payload") + c16Payload("payload")
			vfsAppend(c16Log, p)
			pending += p
		}
		t.w.kick()
		t.settle()
	}
	// tailing stops
	cancel()
	flush()
	if !t.closed {
		t.w.kick()
		for !t.closed {
			before := len(t.got)
			t.settle()
			if !t.closed && len(t.got) == before {
				t.w.kick()
			}
		}
	}
	vAssert(len(t.got) == len(want), "C16.every-appended-line-and-ended-fragment-is-delivered-exactly-once")
	if len(t.got) == len(want) {
		for i := range want {
			vAssert(t.got[i] == want[i], "C16.lines-are-delivered-unchanged-and-in-order")
		}
	}
	vObserve("delivered", len(t.got))
}
