package codegen

import (
	"math"
	"time"

	"github.com/google/mtail/internal/metrics"
	"github.com/google/mtail/internal/metrics/datum"
	"github.com/google/mtail/internal/runtime/compiler/ast"
	"github.com/google/mtail/internal/runtime/compiler/symbol"
)

// C21: histograms count every observation in exactly one bucket.  The real
// code generator builds the metric and its bucket ranges from a histogram
// declaration with symbolic boundaries; arbitrary float64 observations
// (including NaN and infinities) then go through the real datum code.

func HarnessC21() {
	nb := nondetRange("nb", 2, vParam("maxb", 3))
	nobs := vParam("nobs", 2)
	bs := make([]float64, nb)
	sorted := true
	for i := range bs {
		bs[i] = nondetFloat64("bound")
		// declared boundaries are finite numeric literals
		vAssume(!vIsNaN(bs[i]))
		vAssume(!math.IsInf(bs[i], 0))
		if i > 0 {
			sorted = vAnd(sorted, bs[i-1] < bs[i])
		}
	}
	decl := &ast.VarDecl{Name: "h", Kind: metrics.Histogram, Buckets: bs, Symbol: &symbol.Symbol{Name: "h"}}
	obj, err := CodeGen("prog", decl)
	if err != nil {
		vAssert(!sorted, "C21.sorted-declaration-accepted")
		return
	}
	vAssert(sorted, "C21.unsorted-declaration-rejected")
	vAssert(len(obj.Metrics) == 1, "C21.one-metric")
	m := obj.Metrics[0]
	d, derr := m.GetDatum()
	vAssert(derr == nil, "C21.getdatum")
	b := d.(*datum.Buckets)

	// the first declared boundary, when not positive, gets no bucket of its own
	vKnown("C21-first-bound-nonpositive", bs[0] <= 0)

	// exported upper bounds are exactly the declared boundaries plus +Inf
	cum0 := datum.GetBucketsCumByMax(d)
	vAssert(len(cum0) == nb+1, "C21.exported-bounds-are-declared-plus-inf")
	for i := range bs {
		_, ok := cum0[bs[i]]
		vAssert(ok, "C21.exported-bounds-are-declared-plus-inf")
	}
	_, hasInf := cum0[math.Inf(1)]
	vAssert(hasInf, "C21.exported-bounds-are-declared-plus-inf")
	// bucket upper bounds are strictly increasing and end at +Inf
	nbk := len(b.Buckets)
	vAssert(nbk >= 1, "C21.has-buckets")
	for i := 1; i < nbk; i++ {
		vAssert(b.Buckets[i-1].Range.Max < b.Buckets[i].Range.Max, "C21.bucket-bounds-increasing")
	}
	vAssert(math.IsInf(b.Buckets[nbk-1].Range.Max, 1), "C21.last-bucket-is-inf")

	before := make([]uint64, nbk)
	sum := 0.0
	for o := 0; o < nobs; o++ {
		v := nondetFloat64("obs")
		for i := range before {
			before[i] = b.Buckets[i].Count
		}
		datum.Observe(d, v, time.Unix(1, 0))
		sum += v
		// exactly one bucket moved, by one: the first whose bound >= v,
		// NaN and values above every bound go to +Inf (the last bucket)
		found := false
		for i := 0; i < nbk; i++ {
			inc := b.Buckets[i].Count - before[i]
			var want bool
			if i == nbk-1 {
				want = !found
			} else {
				want = vAnd(!found, v <= b.Buckets[i].Range.Max)
			}
			if want { // forks on the comparison
				vAssert(inc == 1, "C21.first-matching-bucket-incremented")
				found = true
			} else {
				vAssert(inc == 0, "C21.other-buckets-untouched")
			}
		}
		vAssert(b.Count == uint64(o+1), "C21.count")
	}
	total := uint64(0)
	for i := 0; i < nbk; i++ {
		total += b.Buckets[i].Count
	}
	vAssert(total == b.Count, "C21.bucket-counts-sum-to-count")
	vAssert(vFloatSame(b.Sum, sum), "C21.sum-is-sum-of-observations")
	vAssert(datum.GetBucketsCount(d) == uint64(nobs), "C21.count")
	// cumulative export (C13): non-decreasing in bound order, +Inf equals count
	cum := datum.GetBucketsCumByMax(d)
	prev := uint64(0)
	for i := 0; i < nbk; i++ {
		c := cum[b.Buckets[i].Range.Max]
		vAssert(c >= prev, "C13.cumulative-non-decreasing")
		prev = c
	}
	vAssert(cum[math.Inf(1)] == b.Count, "C13.inf-bucket-equals-count")
	vObserve("count", b.Count)
}
