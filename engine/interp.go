package main

import (
	"fmt"
	"go/constant"
	"go/token"
	"go/types"
	"runtime"
	"strings"
	"unicode/utf8"

	"golang.org/x/tools/go/ssa"
)

type frame struct {
	e         *Exec
	fn        *ssa.Function
	env       map[ssa.Value]value
	block     *ssa.BasicBlock
	prev      *ssa.BasicBlock
	result    value
	defers    []func()
	panicking *goPanic
}

func (fr *frame) get(v ssa.Value) value {
	switch v := v.(type) {
	case nil:
		return nil
	case *ssa.Const:
		return constValue(v)
	case *ssa.Function:
		return &closure{fn: v}
	case *ssa.Builtin:
		return v
	case *ssa.Global:
		return fr.e.global(v)
	}
	if r, ok := fr.env[v]; ok {
		return r
	}
	panic(inconclusive{fmt.Sprintf("get: no value for %T %v in %s", v, v.Name(), fr.fn)})
}

func isMtailPkg(p *ssa.Package) bool {
	if p == nil {
		return false
	}
	path := p.Pkg.Path()
	return strings.HasPrefix(path, "github.com/google/mtail") ||
		path == "github.com/golang/groupcache/lru" || path == "container/list"
}

func (e *Exec) global(g *ssa.Global) *value {
	if p, ok := e.globals[g]; ok {
		return p
	}
	p := new(value)
	et := g.Type().(*types.Pointer).Elem()
	*p = zero(et)
	if g.Pkg != nil && !isMtailPkg(g.Pkg) {
		// stdlib / third-party globals are not initialised by running their
		// package init; sentinel errors get a distinct opaque identity.
		if types.Identical(et, types.Universe.Lookup("error").Type()) {
			*p = e.newError(g.Pkg.Pkg.Path()+"."+g.Name(), nil)
		}
	}
	e.globals[g] = p
	return p
}

func constValue(c *ssa.Const) value {
	if c.Value == nil {
		return zero(c.Type())
	}
	t := c.Type().Underlying()
	if w, s, ok := intOfType(t); ok {
		if s {
			i, _ := constant.Int64Val(constant.ToInt(c.Value))
			return mkInt(w, s, uint64(i))
		}
		u, _ := constant.Uint64Val(constant.ToInt(c.Value))
		return mkInt(w, s, u)
	}
	if b, ok := t.(*types.Basic); ok {
		switch b.Kind() {
		case types.Float64, types.Float32, types.UntypedFloat:
			f, _ := constant.Float64Val(constant.ToFloat(c.Value))
			return Float{C: f}
		case types.Bool, types.UntypedBool:
			return Bool{C: constant.BoolVal(c.Value)}
		case types.String, types.UntypedString:
			return constant.StringVal(c.Value)
		}
	}
	panic(inconclusive{fmt.Sprintf("const of type %v", c.Type())})
}

func (e *Exec) newFrame(fn *ssa.Function) *frame {
	e.st.Funcs[fn.String()]++
	fr := &frame{e: e, fn: fn, env: make(map[ssa.Value]value, 16)}
	for _, l := range fn.Locals {
		p := new(value)
		*p = zero(l.Type().(*types.Pointer).Elem())
		fr.env[l] = p
	}
	return fr
}

func (e *Exec) call(fn *ssa.Function, args []value) value {
	if st := e.stubFor(fn); st != nil {
		e.st.Stubs[fn.String()]++
		return st(e, fn, args)
	}
	return e.callBody(fn, args)
}

// callBody runs fn's own code (no stub lookup).
func (e *Exec) callBody(fn *ssa.Function, args []value) value {
	if fn.Blocks == nil {
		return e.intrinsic(fn, args)
	}
	if fn.Name() == "init" && fn.Signature.Recv() == nil && fn.Pkg != nil && fn.Synthetic != "" {
		if !isMtailPkg(fn.Pkg) {
			return nil // package initialisers of non-mtail packages are not run
		}
	}
	fr := e.newFrame(fn)
	for i, p := range fn.Params {
		fr.env[p] = args[i]
	}
	e.lastFn = fn
	return fr.run()
}

func (e *Exec) callClosure(c *closure, args []value) value {
	if c.native != nil {
		return c.native(e, args)
	}
	if len(c.env) == 0 {
		return e.call(c.fn, args)
	}
	fn := c.fn
	fr := e.newFrame(fn)
	for i, p := range fn.Params {
		fr.env[p] = args[i]
	}
	for i, fv := range fn.FreeVars {
		fr.env[fv] = c.env[i]
	}
	return fr.run()
}

type mapIter struct {
	e []omapEntry
	i int
	// string iteration
	s    string
	isStr bool
	ss    []Int // symbolic string iteration (when sym)
	sym   bool
}

// run executes the frame, running deferred calls if a Go panic unwinds it.
func (fr *frame) run() (res value) {
	defer func() {
		if r := recover(); r != nil {
			gp, ok := r.(goPanic)
			if !ok {
				panic(r)
			}
			e := fr.e
			e.notePanic(gp)
			fr.panicking = &gp
			e.recovering = append(e.recovering, fr)
			fr.runDefers()
			e.recovering = e.recovering[:len(e.recovering)-1]
			if fr.panicking != nil {
				panic(*fr.panicking)
			}
			// recovered
			if fr.fn.Recover != nil {
				fr.block = fr.fn.Recover
				for fr.block != nil {
					fr.runBlock()
				}
			}
			res = fr.result
			if res == nil && fr.fn.Signature.Results().Len() > 0 {
				res = zero(fr.fn.Signature.Results())
			}
		}
	}()
	fr.block = fr.fn.Blocks[0]
	for fr.block != nil {
		fr.runBlock()
	}
	return fr.result
}

func (e *Exec) notePanic(gp goPanic) {
	s := fmtVal(gp.v)
	n := len(e.panicsLogged)
	if n > 0 && e.panicsLogged[n-1] == s {
		return
	}
	e.panicsLogged = append(e.panicsLogged, s)
}

func (fr *frame) runDefers() {
	for len(fr.defers) > 0 {
		d := fr.defers[len(fr.defers)-1]
		fr.defers = fr.defers[:len(fr.defers)-1]
		d()
	}
}

func (fr *frame) runBlock() {
	e := fr.e
	b := fr.block
	// phis evaluated in parallel
	n := 0
	var phis []value
	for _, in := range b.Instrs {
		phi, ok := in.(*ssa.Phi)
		if !ok {
			break
		}
		for i, p := range b.Preds {
			if p == fr.prev {
				phis = append(phis, fr.get(phi.Edges[i]))
				break
			}
		}
		n++
	}
	for i := 0; i < n; i++ {
		fr.env[b.Instrs[i].(*ssa.Phi)] = phis[i]
	}
	cnt := int64(len(b.Instrs) - n)
	e.st.Steps += cnt
	e.pathSteps += cnt
	e.st.FuncInstrs[fr.fn.String()] += cnt
	if e.sh.cfg.MaxSteps > 0 && e.pathSteps > e.sh.cfg.MaxSteps {
		panic(inconclusive{"per-path step budget exceeded (unwinding guard) in " + fr.fn.String()})
	}
	for _, in := range b.Instrs[n:] {
		switch in := in.(type) {
		case *ssa.Alloc:
			p := new(value)
			*p = zero(in.Type().(*types.Pointer).Elem())
			fr.env[in] = p
		case *ssa.BinOp:
			fr.env[in] = e.binop(in.Op, in.X.Type(), fr.get(in.X), fr.get(in.Y))
		case *ssa.UnOp:
			fr.env[in] = e.unop(in, fr.get(in.X))
		case *ssa.Call:
			fr.env[in] = e.callCommon(fr, &in.Call)
		case *ssa.ChangeType:
			fr.env[in] = fr.get(in.X)
		case *ssa.ChangeInterface:
			fr.env[in] = fr.get(in.X)
		case *ssa.Convert:
			fr.env[in] = e.conv(in.Type(), in.X.Type(), fr.get(in.X))
		case *ssa.Extract:
			fr.env[in] = fr.get(in.Tuple).(tuple)[in.Index]
		case *ssa.Field:
			fr.env[in] = copyVal(fr.get(in.X).(structure)[in.Field])
		case *ssa.FieldAddr:
			p := fr.get(in.X).(*value)
			if p == nil {
				panic(goPanic{"runtime error: invalid memory address or nil pointer dereference"})
			}
			st, ok := (*p).(structure)
			if !ok {
				panic(inconclusive{fmt.Sprintf("FieldAddr on %T (%v) in %s", *p, in.X.Type(), fr.fn)})
			}
			fr.env[in] = &st[in.Field]
			if e.race.names != nil {
				if _, ok := e.race.names[&st[in.Field]]; !ok {
					if pt, ok := in.X.Type().Underlying().(*types.Pointer); ok {
						if stt, ok := pt.Elem().Underlying().(*types.Struct); ok {
							tn := pt.Elem().String()
							if i := strings.LastIndex(tn, "/"); i >= 0 {
								tn = tn[i+1:]
							}
							e.race.names[&st[in.Field]] = tn + "." + stt.Field(in.Field).Name()
						}
					}
				}
			}
		case *ssa.IndexAddr:
			fr.env[in] = e.indexAddr(fr.get(in.X), fr.get(in.Index))
		case *ssa.Index:
			fr.env[in] = e.index(fr.get(in.X), fr.get(in.Index))
		case *ssa.MakeInterface:
			fr.env[in] = iface{t: in.X.Type(), v: fr.get(in.X)}
		case *ssa.MakeSlice:
			n := e.concretize(fr.get(in.Len).(Int)).signed()
			c := e.concretize(fr.get(in.Cap).(Int)).signed()
			if n < 0 || c < n || c > 1<<20 {
				panic(goPanic{"runtime error: makeslice: len out of range"})
			}
			s := make([]value, n, c)
			et := in.Type().Underlying().(*types.Slice).Elem()
			full := s[:c]
			for i := range full {
				full[i] = zero(et)
			}
			fr.env[in] = s
		case *ssa.MakeChan:
			c := e.concretize(fr.get(in.Size).(Int)).signed()
			e.nchan++
			fr.env[in] = &channel{cap: int(c), id: e.nchan}
		case *ssa.MakeClosure:
			c := &closure{fn: in.Fn.(*ssa.Function)}
			for _, b := range in.Bindings {
				c.env = append(c.env, fr.get(b))
			}
			fr.env[in] = c
		case *ssa.Slice:
			fr.env[in] = e.slice(in, fr.get(in.X), fr.get(in.Low), fr.get(in.High), fr.get(in.Max))
		case *ssa.Store:
			p := fr.get(in.Addr).(*value)
			if p == nil {
				panic(goPanic{"runtime error: invalid memory address or nil pointer dereference"})
			}
			if e.race.on {
				e.raceStore(p, fr.fn)
			}
			storeInto(p, fr.get(in.Val))
		case *ssa.Send:
			e.chanSend(fr.get(in.Chan).(*channel), fr.get(in.X))
		case *ssa.Select:
			fr.env[in] = e.selectStmt(fr, in)
		case *ssa.Go:
			cc := in.Call
			callee, args := e.prepareCall(fr, &cc)
			e.spawn(func() { callee(args) })
		case *ssa.Defer:
			cc := in.Call
			callee, args := e.prepareCall(fr, &cc)
			fr.defers = append(fr.defers, func() { callee(args) })
		case *ssa.RunDefers:
			fr.runDefers()
		case *ssa.MakeMap:
			fr.env[in] = &omap{}
		case *ssa.MapUpdate:
			m := fr.get(in.Map).(*omap)
			if m == nil {
				panic(goPanic{"assignment to entry in nil map"})
			}
			e.mapSet(m, fr.get(in.Key), copyVal(fr.get(in.Value)))
		case *ssa.Lookup:
			switch x := fr.get(in.X).(type) {
			case *omap:
				v, ok := e.mapGet(x, fr.get(in.Index))
				if !ok {
					v = zero(in.X.Type().Underlying().(*types.Map).Elem())
				}
				if in.CommaOk {
					fr.env[in] = tuple{copyVal(v), Bool{C: ok}}
				} else {
					fr.env[in] = copyVal(v)
				}
			case string, SStr:
				fr.env[in] = e.index(x, fr.get(in.Index))
			default:
				panic(inconclusive{fmt.Sprintf("Lookup on %T", x)})
			}
		case *ssa.Range:
			switch x := fr.get(in.X).(type) {
			case *omap:
				it := &mapIter{}
				if x != nil {
					it.e = append(it.e, x.e...)
				}
				fr.env[in] = it
			case string:
				fr.env[in] = &mapIter{s: x, isStr: true}
			case SStr:
				fr.env[in] = &mapIter{ss: x.B, isStr: true, sym: true}
			default:
				panic(inconclusive{fmt.Sprintf("Range on %T", x)})
			}
		case *ssa.Next:
			it := fr.get(in.Iter).(*mapIter)
			if it.isStr && it.sym {
				if it.i >= len(it.ss) {
					fr.env[in] = tuple{Bool{C: false}, mkI64(0), mkInt(32, true, 0)}
				} else {
					r, sz := e.decodeRune(it.ss[it.i:])
					fr.env[in] = tuple{Bool{C: true}, mkI64(int64(it.i)), r}
					it.i += sz
				}
				break
			}
			if it.isStr {
				if it.i >= len(it.s) {
					fr.env[in] = tuple{Bool{C: false}, mkI64(0), mkInt(32, true, 0)}
				} else {
					r, sz := utf8.DecodeRuneInString(it.s[it.i:])
					fr.env[in] = tuple{Bool{C: true}, mkI64(int64(it.i)), mkInt(32, true, uint64(r))}
					it.i += sz
				}
				break
			}
			if it.i >= len(it.e) {
				fr.env[in] = tuple{Bool{C: false}, nil, nil}
			} else {
				en := it.e[it.i]
				it.i++
				fr.env[in] = tuple{Bool{C: true}, en.k, copyVal(en.v)}
			}
		case *ssa.TypeAssert:
			fr.env[in] = e.typeAssert(in, fr.get(in.X).(iface))
		case *ssa.If:
			c := fr.get(in.Cond).(Bool)
			var d bool
			if c.T == nil {
				d = c.C
			} else {
				d = e.branch(c.T)
			}
			fr.prev = b
			if d {
				fr.block = b.Succs[0]
			} else {
				fr.block = b.Succs[1]
			}
			return
		case *ssa.Jump:
			fr.prev = b
			fr.block = b.Succs[0]
			return
		case *ssa.Return:
			switch len(in.Results) {
			case 0:
			case 1:
				fr.result = fr.get(in.Results[0])
			default:
				t := make(tuple, len(in.Results))
				for i, r := range in.Results {
					t[i] = fr.get(r)
				}
				fr.result = t
			}
			fr.block = nil
			return
		case *ssa.Panic:
			panic(goPanic{fr.get(in.X)})
		case *ssa.DebugRef:
		default:
			panic(inconclusive{fmt.Sprintf("unsupported instruction %T in %s", in, fr.fn)})
		}
	}
	panic("block fell through")
}

func (e *Exec) index(x, idxv value) value {
	idx := e.concretize(idxv.(Int))
	i := idx.signed()
	switch x := x.(type) {
	case array:
		if i < 0 || i >= int64(len(x)) {
			panic(goPanic{"runtime error: index out of range"})
		}
		return copyVal(x[i])
	case string:
		if i < 0 || i >= int64(len(x)) {
			panic(goPanic{fmt.Sprintf("runtime error: index out of range [%d] with length %d", i, len(x))})
		}
		return mkByte(x[i])
	case SStr:
		if hasOpaque(x.B) {
			panic(inconclusive{"index into string with opaque piece"})
		}
		if i < 0 || i >= int64(len(x.B)) {
			panic(goPanic{fmt.Sprintf("runtime error: index out of range [%d] with length %d", i, len(x.B))})
		}
		return x.B[i].deref()
	}
	panic(inconclusive{fmt.Sprintf("Index on %T", x)})
}

func (e *Exec) resolveMethod(recv iface, m *types.Func) *ssa.Function {
	fn := e.prog.LookupMethod(recv.t, m.Pkg(), m.Name())
	return fn
}

func (e *Exec) callCommon(fr *frame, cc *ssa.CallCommon) value {
	if cc.IsInvoke() {
		recv := fr.get(cc.Value).(iface)
		args := make([]value, 0, len(cc.Args)+1)
		if recv.t == nil {
			panic(goPanic{"runtime error: invalid memory address or nil pointer dereference (nil interface method call " + cc.Method.Name() + ")"})
		}
		if no, ok := recv.v.(nativeObj); ok {
			for _, a := range cc.Args {
				args = append(args, fr.get(a))
			}
			return no.invoke(e, cc.Method.Name(), args)
		}
		fn := e.resolveMethod(recv, cc.Method)
		if fn == nil {
			panic(inconclusive{"no method " + cc.Method.Name() + " on " + recv.t.String()})
		}
		args = append(args, recv.v)
		for _, a := range cc.Args {
			args = append(args, fr.get(a))
		}
		return e.call(fn, args)
	}
	args := make([]value, 0, len(cc.Args))
	for _, a := range cc.Args {
		args = append(args, fr.get(a))
	}
	switch f := fr.get(cc.Value).(type) {
	case *ssa.Builtin:
		return e.builtin(f, cc, args)
	case *closure:
		if f == nil {
			panic(goPanic{"runtime error: invalid memory address or nil pointer dereference (call of nil func)"})
		}
		return e.callClosure(f, args)
	}
	panic(inconclusive{fmt.Sprintf("call of %T", fr.get(cc.Value))})
}

// prepareCall evaluates callee and arguments now, for go/defer.
func (e *Exec) prepareCall(fr *frame, cc *ssa.CallCommon) (func([]value) value, []value) {
	var args []value
	if cc.IsInvoke() {
		recv := fr.get(cc.Value).(iface)
		for _, a := range cc.Args {
			args = append(args, fr.get(a))
		}
		if no, ok := recv.v.(nativeObj); ok {
			name := cc.Method.Name()
			return func(a []value) value { return no.invoke(e, name, a) }, args
		}
		if recv.t == nil {
			return func(a []value) value {
				panic(goPanic{"runtime error: invalid memory address or nil pointer dereference"})
			}, args
		}
		fn := e.resolveMethod(recv, cc.Method)
		args = append([]value{recv.v}, args...)
		return func(a []value) value { return e.call(fn, a) }, args
	}
	for _, a := range cc.Args {
		args = append(args, fr.get(a))
	}
	switch f := fr.get(cc.Value).(type) {
	case *ssa.Builtin:
		return func(a []value) value { return e.builtin(f, cc, a) }, args
	case *closure:
		if f == nil {
			return func(a []value) value {
				panic(goPanic{"runtime error: invalid memory address or nil pointer dereference"})
			}, args
		}
		return func(a []value) value { return e.callClosure(f, a) }, args
	}
	panic(inconclusive{"prepareCall"})
}

func (e *Exec) indexAddr(x, idx value) *value {
	i := e.concretize(idx.(Int)).signed()
	switch x := x.(type) {
	case []value:
		if i < 0 || i >= int64(len(x)) {
			panic(goPanic{fmt.Sprintf("runtime error: index out of range [%d] with length %d", i, len(x))})
		}
		return &x[i]
	case *value:
		if x == nil {
			panic(goPanic{"runtime error: invalid memory address or nil pointer dereference"})
		}
		a := (*x).(array)
		if i < 0 || i >= int64(len(a)) {
			panic(goPanic{"runtime error: index out of range"})
		}
		return &a[i]
	}
	panic(inconclusive{fmt.Sprintf("IndexAddr on %T", x)})
}

func (e *Exec) slice(in *ssa.Slice, x, lo, hi, max value) value {
	geti := func(v value, def int64) int64 {
		if v == nil {
			return def
		}
		return e.concretize(v.(Int)).signed()
	}
	switch x := x.(type) {
	case []value:
		l := geti(lo, 0)
		h := geti(hi, int64(len(x)))
		m := geti(max, int64(cap(x)))
		if l < 0 || h < l || h > m || m > int64(cap(x)) {
			panic(goPanic{fmt.Sprintf("runtime error: slice bounds out of range [%d:%d:%d] with capacity %d", l, h, m, cap(x))})
		}
		if x == nil {
			return x
		}
		return x[l:h:m]
	case string:
		l := geti(lo, 0)
		h := geti(hi, int64(len(x)))
		if l < 0 || h < l || h > int64(len(x)) {
			panic(goPanic{fmt.Sprintf("runtime error: slice bounds out of range [%d:%d] with length %d", l, h, len(x))})
		}
		return x[l:h]
	case SStr:
		if hasOpaque(x.B) {
			panic(inconclusive{"slice of string with opaque piece"})
		}
		l := geti(lo, 0)
		h := geti(hi, int64(len(x.B)))
		if l < 0 || h < l || h > int64(len(x.B)) {
			panic(goPanic{fmt.Sprintf("runtime error: slice bounds out of range [%d:%d] with length %d", l, h, len(x.B))})
		}
		return mkStr(x.B[l:h])
	case *value:
		if x == nil {
			panic(goPanic{"runtime error: invalid memory address or nil pointer dereference"})
		}
		a := (*x).(array)
		l := geti(lo, 0)
		h := geti(hi, int64(len(a)))
		m := geti(max, int64(len(a)))
		if l < 0 || h < l || h > m || m > int64(len(a)) {
			panic(goPanic{"runtime error: slice bounds out of range"})
		}
		return []value(a)[l:h:m]
	}
	panic(inconclusive{fmt.Sprintf("Slice on %T", x)})
}

func (e *Exec) typeAssert(in *ssa.TypeAssert, x iface) value {
	ok := false
	var v value
	if it, isI := in.AssertedType.Underlying().(*types.Interface); isI {
		if x.t != nil {
			if no, nat := x.v.(nativeObj); nat {
				ok = nativeImplements(no, it)
			} else {
				ok = types.Implements(x.t, it)
			}
		}
		v = x
	} else {
		ok = x.t != nil && types.Identical(x.t, in.AssertedType)
		v = x.v
	}
	if in.CommaOk {
		if !ok {
			v = zero(in.AssertedType)
		}
		return tuple{v, Bool{C: ok}}
	}
	if !ok {
		if x.t == nil {
			panic(goPanic{fmt.Sprintf("interface conversion: interface is nil, not %v", in.AssertedType)})
		}
		panic(goPanic{fmt.Sprintf("interface conversion: interface {} is %v, not %v", x.t, in.AssertedType)})
	}
	return v
}

func (e *Exec) unop(in *ssa.UnOp, x value) value {
	switch in.Op {
	case token.MUL: // load
		p := x.(*value)
		if p == nil {
			panic(goPanic{"runtime error: invalid memory address or nil pointer dereference"})
		}
		if e.race.on {
			e.raceLoad(p, in.Parent())
		}
		return copyVal(*p)
	case token.NOT:
		return bnot(x.(Bool))
	case token.SUB:
		switch i := x.(type) {
		case Int:
			if i.isConc() {
				return mkInt(i.W, i.S, -i.C)
			}
			return Int{W: i.W, S: i.S, T: &Term{S: "(bvneg " + i.term().S + ")"}}
		case Float:
			if i.T == nil {
				return Float{C: -i.C}
			}
			return Float{T: &Term{S: "(fp.neg " + i.T.S + ")"}}
		}
	case token.XOR:
		i := x.(Int)
		if i.isConc() {
			return mkInt(i.W, i.S, ^i.C)
		}
		return Int{W: i.W, S: i.S, T: &Term{S: "(bvnot " + i.term().S + ")"}}
	case token.ARROW:
		v, ok := e.chanRecv(x.(*channel))
		if !ok {
			v = zero(in.X.Type().Underlying().(*types.Chan).Elem())
		}
		if in.CommaOk {
			return tuple{v, Bool{C: ok}}
		}
		return v
	}
	panic(inconclusive{"unop " + in.Op.String()})
}

// engineStack formats the engine's own stack for internal errors.
func engineStack() string {
	buf := make([]byte, 4096)
	n := runtime.Stack(buf, false)
	return string(buf[:n])
}
