package main

import (
	"fmt"
	"go/token"
	"go/types"
	"strings"
	"time"

	"golang.org/x/tools/go/ssa"
)

// The time.Time model (see value.go TimeV).  All arithmetic is bit-vector;
// multiplication or division by 1e9 only appears when an instant built from
// (sec,nsec) is converted to nanoseconds or back, and the engine cancels
// the t/1e9, t%1e9 -> time.Unix round trip structurally (an exact identity
// of Go's truncated division) so that the datum timestamp kernel never needs
// it.

const nsPerSec = 1000000000

func i64(x Int) Int {
	if x.W != 64 || !x.S {
		panic(inconclusive{"time: expected int64"})
	}
	return x
}

// sdivParts recognises (bvsdiv X c) / (bvsrem X c).
func sdivOperand(t *Term, op string) (string, bool) {
	if t == nil {
		return "", false
	}
	p := "(" + op + " "
	suffix := " " + bvLit(nsPerSec, 64) + ")"
	if strings.HasPrefix(t.S, p) && strings.HasSuffix(t.S, suffix) {
		return t.S[len(p) : len(t.S)-len(suffix)], true
	}
	return "", false
}

// timeUnix models time.Unix(sec, nsec).
func (e *Exec) timeUnix(sec, nsec Int) TimeV {
	if sec.isConc() && nsec.isConc() {
		s, n := sec.signed(), nsec.signed()
		if n < 0 || n >= nsPerSec {
			k := n / nsPerSec
			s += k
			n -= k * nsPerSec
			if n < 0 {
				n += nsPerSec
				s--
			}
		}
		return TimeV{Sec: mkI64(s), Nsec: mkI64(n)}
	}
	if a, ok := sdivOperand(sec.T, "bvsdiv"); ok {
		if b, ok2 := sdivOperand(nsec.T, "bvsrem"); ok2 && a == b {
			ns := Int{W: 64, S: true, T: &Term{S: a}}
			return TimeV{NS: &ns}
		}
	}
	if nsec.isConc() && nsec.signed() >= 0 && nsec.signed() < nsPerSec {
		return TimeV{Sec: sec, Nsec: nsec}
	}
	if sec.isConc() && sec.signed() == 0 {
		// time.Unix(0, ns): exactly ns nanoseconds since the epoch
		ns := nsec
		return TimeV{NS: &ns}
	}
	panic(inconclusive{"time.Unix with symbolic nanoseconds outside the modelled patterns"})
}

// secNsec returns (unix seconds, nanoseconds in [0,1e9)).
func (t TimeV) secNsec() (Int, Int) {
	if t.NS == nil {
		return t.Sec, t.Nsec
	}
	x := *t.NS
	if x.isConc() {
		v := x.signed()
		s, n := v/nsPerSec, v%nsPerSec
		if n < 0 {
			n += nsPerSec
			s--
		}
		return mkI64(s), mkI64(n)
	}
	c := mkI64(nsPerSec)
	q := intBinop(token.QUO, x, c).(Int)
	r := intBinop(token.REM, x, c).(Int)
	neg := "(bvslt " + r.T.S + " " + bvLit(0, 64) + ")"
	sec := Int{W: 64, S: true, T: &Term{S: "(ite " + neg + " (bvsub " + q.T.S + " " + bvLit(1, 64) + ") " + q.T.S + ")"}}
	nsec := Int{W: 64, S: true, T: &Term{S: "(ite " + neg + " (bvadd " + r.T.S + " " + bvLit(nsPerSec, 64) + ") " + r.T.S + ")"}}
	return sec, nsec
}

// unixNano models Time.UnixNano (wraps like Go).
func (t TimeV) unixNano() Int {
	if t.NS != nil {
		return *t.NS
	}
	return intBinop(token.ADD, intBinop(token.MUL, t.Sec, mkI64(nsPerSec)).(Int), t.Nsec).(Int)
}

func (t TimeV) isZero() Bool {
	if t.NS != nil {
		// representable instants are never the year-1 zero time
		return Bool{C: false}
	}
	return band(eqInt(t.Sec, mkI64(-62135596800)), eqInt(t.Nsec, mkI64(0)))
}

func sext128(x Int) string {
	return "((_ sign_extend 64) " + x.term().S + ")"
}

// ns128 is the exact nanosecond count as a 128-bit term.
func (t TimeV) ns128() string {
	if t.NS != nil {
		return sext128(*t.NS)
	}
	if t.Sec.isConc() && t.Nsec.isConc() {
		// compute exactly in big arithmetic via two 64-bit halves
		return fmt.Sprintf("(bvadd (bvmul %s %s) %s)", sext128(t.Sec), "(_ bv1000000000 128)", sext128(t.Nsec))
	}
	return fmt.Sprintf("(bvadd (bvmul %s (_ bv1000000000 128)) %s)", sext128(t.Sec), sext128(t.Nsec))
}

// sub models Time.Sub: the difference saturated to int64.
func timeSub(e *Exec, a, b TimeV) Int {
	if a.NS == nil && b.NS == nil && a.Sec.isConc() && a.Nsec.isConc() && b.Sec.isConc() && b.Nsec.isConc() {
		ds := a.Sec.signed() - b.Sec.signed()
		dn := a.Nsec.signed() - b.Nsec.signed()
		// saturate
		const maxS = int64(^uint64(0)>>1) / nsPerSec
		if ds > maxS+1 {
			return mkI64(int64(^uint64(0) >> 1))
		}
		if ds < -maxS-1 {
			return mkI64(-int64(^uint64(0)>>1) - 1)
		}
		hi := ds * nsPerSec
		r := hi + dn
		if (dn > 0 && r < hi) || (ds > maxS) {
			return mkI64(int64(^uint64(0) >> 1))
		}
		if (dn < 0 && r > hi) || (ds < -maxS) {
			return mkI64(-int64(^uint64(0)>>1) - 1)
		}
		return mkI64(r)
	}
	if a.NS != nil && b.NS != nil {
		// both instants are int64 nanosecond counts: 64-bit difference with
		// explicit overflow detection (cheaper for the solver than 128 bits);
		// an overflow case that is infeasible under the current path
		// condition is pruned so that the common case is a plain bvsub.
		x, y := a.NS.term().S, b.NS.term().S
		z := bvLit(0, 64)
		d := "(bvsub " + x + " " + y + ")"
		negOv := fmt.Sprintf("(and (bvslt %s %s) (bvsge %s %s) (bvsge %s %s))", x, z, y, z, d, z)
		posOv := fmt.Sprintf("(and (bvsge %s %s) (bvslt %s %s) (bvslt %s %s))", x, z, y, z, d, z)
		t := d
		if e == nil || e.feasible(&Term{S: posOv}) {
			t = fmt.Sprintf("(ite %s %s %s)", posOv, bvLit(1<<63-1, 64), t)
		}
		if e == nil || e.feasible(&Term{S: negOv}) {
			t = fmt.Sprintf("(ite %s %s %s)", negOv, bvLit(1<<63, 64), t)
		}
		return Int{W: 64, S: true, T: &Term{S: t}}
	}
	d := "(bvsub " + a.ns128() + " " + b.ns128() + ")"
	max := "(_ bv9223372036854775807 128)"
	min := "(bvneg (_ bv9223372036854775808 128))"
	t := fmt.Sprintf("(ite (bvsgt %s %s) %s (ite (bvslt %s %s) %s ((_ extract 63 0) %s)))",
		d, max, bvLit(1<<63-1, 64), d, min, bvLit(1<<63, 64), d)
	return Int{W: 64, S: true, T: &Term{S: t}}
}

func timeBefore(a, b TimeV) Bool {
	if a.NS != nil && b.NS != nil {
		return intBinop(token.LSS, *a.NS, *b.NS).(Bool)
	}
	as, an := a.secNsec()
	bs, bn := b.secNsec()
	return bor(intBinop(token.LSS, as, bs).(Bool), band(eqInt(as, bs), intBinop(token.LSS, an, bn).(Bool)))
}

func timeEqual(a, b TimeV) Bool {
	if a.NS != nil && b.NS != nil {
		return eqInt(*a.NS, *b.NS)
	}
	as, an := a.secNsec()
	bs, bn := b.secNsec()
	return band(eqInt(as, bs), eqInt(an, bn))
}

// now returns the stubbed wall clock: an arbitrary instant in
// [2001-09-09, 2200-01-01) as int64 nanoseconds, non-decreasing across calls.
func (e *Exec) now() TimeV {
	if e.clockNext != nil {
		x := *e.clockNext
		e.clockNext = nil
		e.clockLast = &x
		return TimeV{NS: &x}
	}
	if e.clockFrozen && e.clockLast != nil {
		return TimeV{NS: e.clockLast}
	}
	tag := "clock.now"
	var x Int
	if s, ok := e.nextConcrete("int64"); ok {
		var v int64
		fmt.Sscan(s, &v)
		x = mkI64(v)
		e.addInput(tag, "int64", nil, v)
	} else {
		t := e.fresh(tag, bvSort(64))
		e.addInput(tag, "int64", t, nil)
		x = Int{W: 64, S: true, T: t}
		lo, hi := bvLit(1000000000*nsPerSec, 64), bvLit(7258118400*nsPerSec, 64)
		e.assert(&Term{S: fmt.Sprintf("(and (bvsge %s %s) (bvslt %s %s))", t.S, lo, t.S, hi)})
		if e.clockLast != nil {
			e.assert(&Term{S: fmt.Sprintf("(bvsge %s %s)", t.S, e.clockLast.term().S)})
		}
		// one harness run takes less than half an hour of wall-clock time
		if e.clockFirst == nil {
			e.clockFirst = &x
		} else {
			e.assert(&Term{S: fmt.Sprintf("(bvslt %s (bvadd %s %s))", t.S, e.clockFirst.term().S, bvLit(1800*nsPerSec, 64))})
		}
	}
	e.clockLast = &x
	return TimeV{NS: &x}
}

// ---- context ----

type ctxObj struct {
	parent     *ctxObj
	done       *channel
	err        value
	cancelable bool
}

func (c *ctxObj) canceled() bool {
	for p := c; p != nil; p = p.parent {
		if p.done != nil && p.done.closed {
			return true
		}
	}
	return false
}

func (c *ctxObj) invoke(e *Exec, method string, args []value) value {
	switch method {
	case "Done":
		if c.done == nil {
			if c.parent != nil {
				return c.parent.invoke(e, "Done", nil)
			}
			return (*channel)(nil)
		}
		return c.done
	case "Err":
		if c.canceled() {
			return e.ctxCanceledErr()
		}
		return iface{}
	case "Value":
		return iface{}
	case "Deadline":
		return tuple{zeroTimeV, Bool{C: false}}
	}
	panic(inconclusive{"context method " + method})
}

var ctxType = types.NewNamed(types.NewTypeName(token.NoPos, nil, "verif.context", nil), types.NewStruct(nil, nil), nil)

func (e *Exec) ctxCanceledErr() value {
	if v, ok := e.natives["context.Canceled"]; ok {
		return v
	}
	v := e.newError("context canceled", nil)
	e.natives["context.Canceled"] = v
	return v
}

func (e *Exec) cancelCtx(c *ctxObj) {
	if c.done != nil && !c.done.closed {
		c.done.closed = true
	}
	// children observe cancellation through canceled(); close their channels too
	for _, v := range e.ctxChildren[c] {
		e.cancelCtx(v)
	}
}

func init() {
	stubs["time.Now"] = func(e *Exec, fn *ssa.Function, args []value) value { return e.now() }
	stubs["time.Unix"] = func(e *Exec, fn *ssa.Function, args []value) value {
		return e.timeUnix(i64(args[0].(Int)), i64(args[1].(Int)))
	}
	ident := func(e *Exec, fn *ssa.Function, args []value) value { return args[0] }
	noLoc := func(e *Exec, fn *ssa.Function, args []value) value {
		t := args[0].(TimeV)
		t.Loc = nil
		return t
	}
	stubs["(time.Time).UTC"] = noLoc
	stubs["(time.Time).Local"] = noLoc // the process zone is assumed to be UTC
	stubs["(time.Time).Round"] = ident
	stubs["(time.Time).In"] = func(e *Exec, fn *ssa.Function, args []value) value {
		t := args[0].(TimeV)
		t.Loc = args[1]
		return t
	}
	stubs["(time.Time).IsZero"] = func(e *Exec, fn *ssa.Function, args []value) value { return args[0].(TimeV).isZero() }
	stubs["(time.Time).UnixNano"] = func(e *Exec, fn *ssa.Function, args []value) value { return args[0].(TimeV).unixNano() }
	stubs["(time.Time).Unix"] = func(e *Exec, fn *ssa.Function, args []value) value {
		s, _ := args[0].(TimeV).secNsec()
		return s
	}
	stubs["(time.Time).Nanosecond"] = func(e *Exec, fn *ssa.Function, args []value) value {
		_, n := args[0].(TimeV).secNsec()
		return n
	}
	stubs["(time.Time).Before"] = func(e *Exec, fn *ssa.Function, args []value) value {
		return timeBefore(args[0].(TimeV), args[1].(TimeV))
	}
	stubs["(time.Time).After"] = func(e *Exec, fn *ssa.Function, args []value) value {
		return timeBefore(args[1].(TimeV), args[0].(TimeV))
	}
	stubs["(time.Time).Equal"] = func(e *Exec, fn *ssa.Function, args []value) value {
		return timeEqual(args[0].(TimeV), args[1].(TimeV))
	}
	stubs["(time.Time).Sub"] = func(e *Exec, fn *ssa.Function, args []value) value {
		return timeSub(e, args[0].(TimeV), args[1].(TimeV))
	}
	stubs["time.Since"] = func(e *Exec, fn *ssa.Function, args []value) value {
		return mkI64(0) // only used for self-timing histograms, not observable
	}
	stubs["(time.Time).Add"] = func(e *Exec, fn *ssa.Function, args []value) value {
		t := args[0].(TimeV)
		d := args[1].(Int)
		if t.NS != nil {
			// exact when no int64 overflow; the harness bounds instants
			ns := intBinop(token.ADD, *t.NS, d).(Int)
			return TimeV{NS: &ns, Loc: t.Loc}
		}
		if d.isConc() && t.Sec.isConc() && t.Nsec.isConc() {
			s := t.Sec.signed() + d.signed()/nsPerSec
			n := t.Nsec.signed() + d.signed()%nsPerSec
			if n >= nsPerSec {
				n -= nsPerSec
				s++
			} else if n < 0 {
				n += nsPerSec
				s--
			}
			return TimeV{Sec: mkI64(s), Nsec: mkI64(n), Loc: t.Loc}
		}
		panic(inconclusive{"Time.Add on symbolic (sec,nsec) instant"})
	}
	stubs["(time.Duration).Seconds"] = func(e *Exec, fn *ssa.Function, args []value) value {
		d := args[0].(Int)
		if d.isConc() {
			return Float{C: float64(d.signed()) / 1e9}
		}
		panic(inconclusive{"Duration.Seconds on symbolic duration"})
	}
	stubs["(time.Duration).String"] = func(e *Exec, fn *ssa.Function, args []value) value {
		if d, ok := args[0].(Int); ok && d.isConc() {
			return time.Duration(d.signed()).String()
		}
		return "<duration>"
	}
	stubs["time.NewTicker"] = func(e *Exec, fn *ssa.Function, args []value) value {
		panic(inconclusive{"time.NewTicker"})
	}

	// context
	mkctx := func(e *Exec, parent *ctxObj, cancelable bool) *ctxObj {
		c := &ctxObj{parent: parent, cancelable: cancelable}
		if cancelable {
			e.nchan++
			c.done = &channel{id: e.nchan}
			if parent != nil {
				if e.ctxChildren == nil {
					e.ctxChildren = map[*ctxObj][]*ctxObj{}
				}
				e.ctxChildren[parent] = append(e.ctxChildren[parent], c)
				if parent.canceled() {
					c.done.closed = true
				}
			}
		}
		return c
	}
	bg := func(e *Exec, fn *ssa.Function, args []value) value {
		return iface{t: ctxType, v: mkctx(e, nil, false)}
	}
	stubs["context.Background"] = bg
	stubs["context.TODO"] = bg
	stubs["context.WithCancel"] = func(e *Exec, fn *ssa.Function, args []value) value {
		var parent *ctxObj
		if p, ok := args[0].(iface); ok && p.t != nil {
			parent, _ = p.v.(*ctxObj)
		}
		c := mkctx(e, parent, true)
		cancel := &closure{name: "context.cancel", native: func(e *Exec, _ []value) value {
			e.cancelCtx(c)
			return nil
		}}
		return tuple{iface{t: ctxType, v: c}, cancel}
	}
}
