package main

import (
	"fmt"
	"go/token"
	"hash/fnv"
	"strconv"
	"strings"
	"time"

	"golang.org/x/tools/go/ssa"
)

// time.Parse / ParseInLocation, Time.Year and Time.AddDate(y,0,0) are
// uninterpreted functions of their arguments (congruence is what the harness
// oracles need); on concrete arguments they are evaluated natively, and sat
// models are refined against the native functions (ufrefine.go).
// Locations are not modelled: every instant is treated as UTC (stated).

func layoutID(layout string) string {
	h := fnv.New32a()
	h.Write([]byte(layout))
	return fmt.Sprintf("%08x", h.Sum32())
}

func timeOfModel(sec, nsec string) time.Time {
	return time.Unix(int64(parseBV(sec)), int64(parseBV(nsec))).UTC()
}

// locObj is the engine's *time.Location: a fixed offset east of UTC in
// seconds (time.FixedZone).  A nil location (time.UTC, time.Local: the
// process zone is assumed to be UTC) has offset 0.
type locObj struct{ Off Int }

func locOffset(v value) Int {
	if p, ok := v.(*value); ok && p != nil {
		if l, ok := (*p).(locObj); ok {
			return l.Off
		}
	}
	return mkI64(0)
}

func nativeLoc(off int64) *time.Location {
	if off == 0 {
		return time.UTC
	}
	return time.FixedZone("", int(off))
}

func layoutHasZone(layout string) bool {
	for _, z := range []string{"MST", "Z07", "-07", "GMT"} {
		if strings.Contains(layout, z) {
			return true
		}
	}
	return false
}

// localSec is the instant's wall-clock reading in its location, as seconds.
func (t TimeV) localSec() Int {
	sec, _ := t.secNsec()
	off := locOffset(t.Loc)
	if off.isConc() && off.signed() == 0 {
		return sec
	}
	return intBinop(token.ADD, sec, off).(Int)
}

func init() {
	parse := func(e *Exec, fn *ssa.Function, args []value) value {
		layout := e.concretizeStr(args[0])
		var locV value
		lo := mkI64(0)
		if len(args) > 2 {
			locV = args[2]
			lo = locOffset(locV)
			if !lo.isConc() {
				panic(inconclusive{"time.ParseInLocation with a symbolic location"})
			}
		}
		nloc := nativeLoc(lo.signed())
		resLoc := func(t time.Time) value {
			_, zoff := t.Zone()
			if int64(zoff) == lo.signed() {
				return locV
			}
			c := new(value)
			*c = locObj{Off: mkI64(int64(zoff))}
			return c
		}
		if s, ok := concStr(args[1]); ok {
			t, err := time.ParseInLocation(layout, s, nloc)
			if err != nil {
				return tuple{zeroTimeV, e.newError("parsing time "+strconv.Quote(s)+" as "+strconv.Quote(layout)+": cannot parse", nil)}
			}
			return tuple{TimeV{Sec: mkI64(t.Unix()), Nsec: mkI64(int64(t.Nanosecond())), Loc: resLoc(t)}, iface{}}
		}
		bs := strBytes(args[1])
		if hasOpaque(bs) {
			panic(inconclusive{"time.Parse on opaque string"})
		}
		n := len(bs)
		if n == 0 {
			return tuple{zeroTimeV, e.newError("parsing time \"\": cannot parse", nil)}
		}
		sig := "("
		var as []string
		for _, b := range bs {
			sig += "(_ BitVec 8) "
			as = append(as, b.term().S)
		}
		sig += ")"
		id := layoutID(layout)
		if lo.signed() != 0 {
			id += fmt.Sprintf("_z%d", lo.signed())
			id = strings.ReplaceAll(id, "-", "m")
		}
		okN, secN, nsN, offN := fmt.Sprintf("tp_ok_%s_%d", id, n), fmt.Sprintf("tp_sec_%s_%d", id, n), fmt.Sprintf("tp_nsec_%s_%d", id, n), fmt.Sprintf("tp_off_%s_%d", id, n)
		e.declUF(okN, sig+" Bool")
		e.declUF(secN, sig+" (_ BitVec 64)")
		e.declUF(nsN, sig+" (_ BitVec 64)")
		app := func(f string) string { return "(" + f + " " + joinTerms(as) + ")" }
		bytesOf := func(vals []string) string {
			b := make([]byte, len(vals))
			for i, v := range vals {
				b[i] = byte(parseBV(v))
			}
			return string(b)
		}
		e.ufApps = append(e.ufApps,
			ufApp{term: app(okN), args: as, eval: func(vals []string) (string, bool) {
				_, err := time.ParseInLocation(layout, bytesOf(vals), nloc)
				return strconv.FormatBool(err == nil), true
			}},
			ufApp{term: app(secN), args: as, eval: func(vals []string) (string, bool) {
				t, err := time.ParseInLocation(layout, bytesOf(vals), nloc)
				if err != nil {
					return "", false
				}
				return bvLit(uint64(t.Unix()), 64), true
			}},
			ufApp{term: app(nsN), args: as, eval: func(vals []string) (string, bool) {
				t, err := time.ParseInLocation(layout, bytesOf(vals), nloc)
				if err != nil {
					return "", false
				}
				return bvLit(uint64(t.Nanosecond()), 64), true
			}})
		// supported layouts: acceptance, year, nanosecond and "is the zero
		// instant" are exact functions of the value bytes (stubs_timeparse.go)
		if defs, okT, fields, sup := tpFormula(layout, as, fmt.Sprintf("tpd%d", e.ntpdef)); sup {
			e.ntpdef++
			for _, d := range defs {
				e.sol.Send(d)
			}
			e.assert(&Term{S: "(= " + app(okN) + " " + okT + ")"})
			if fields != nil {
				okA := app(okN)
				e.assert(&Term{S: fmt.Sprintf("(=> %s (= %s ((_ zero_extend 32) %s)))", okA, app(nsN), fields["nsec"])})
				// the offset of the result: the value's own zone if the layout
				// has one, else the location's
				off64 := bvLit(uint64(lo.signed()), 64)
				off32 := c32(int(lo.signed()))
				if layoutHasZone(layout) {
					off64 = "((_ sign_extend 32) " + fields["zoff"] + ")"
					off32 = fields["zoff"]
					e.declUF(offN, sig+" (_ BitVec 64)")
					e.assert(&Term{S: fmt.Sprintf("(=> %s (= %s %s))", okA, app(offN), off64)})
				}
				lsec := "(bvadd " + app(secN) + " " + off64 + ")"
				// the wall-clock reading of the result shows the parsed fields,
				// and building a date from them gives the instant back; these
				// axioms are stated for a component function only once the
				// path uses that function (tpActivate)
				e.declUF("tm_year", "((_ BitVec 64)) (_ BitVec 64)")
				e.tpReg = append(e.tpReg, tpRegEntry{ok: okA, lsec: lsec, fields: fields, done: map[string]bool{}})
				e.tpActivate("tm_year")
				for uf := range e.tpActive {
					e.tpAxiom(e.tpReg[len(e.tpReg)-1], uf)
				}
				// the zero instant 0001-01-01 00:00:00 UTC reads, at offset o,
				// as 0001-01-01 + o (o >= 0) or 0000-12-31 24:00 + o (o < 0)
				tod := fmt.Sprintf("(bvadd (bvmul %s %s) (bvmul %s %s) %s)", fields["hour"], c32(3600), fields["min"], c32(60), fields["sec"])
				isz := fmt.Sprintf("(or (and (bvsge %s %s) (= %s %s) (= %s %s) (= %s %s) (= %s %s)) (and (bvslt %s %s) (= %s %s) (= %s %s) (= %s %s) (= %s (bvadd %s %s))))",
					off32, c32(0), fields["year"], c32(1), fields["month"], c32(1), fields["day"], c32(1), tod, off32,
					off32, c32(0), fields["year"], c32(0), fields["month"], c32(12), fields["day"], c32(31), tod, c32(86400), off32)
				e.assert(&Term{S: fmt.Sprintf("(=> %s (= (= %s %s) %s))", okA, app(secN), zeroTimeV.Sec.term().S, isz)})
			}
		}
		if !e.branch(&Term{S: app(okN)}) {
			return tuple{zeroTimeV, e.newError("parsing time: cannot parse", nil)}
		}
		ns := Int{W: 64, S: true, T: &Term{S: app(nsN)}}
		e.assert(&Term{S: fmt.Sprintf("(and (bvsge %s %s) (bvslt %s %s))", ns.T.S, bvLit(0, 64), ns.T.S, bvLit(nsPerSec, 64))})
		rl := locV
		if layoutHasZone(layout) {
			// the value may carry its own zone: the result's offset is a
			// function of the value as well
			e.declUF(offN, sig+" (_ BitVec 64)")
			e.ufApps = append(e.ufApps, ufApp{term: app(offN), args: as, eval: func(vals []string) (string, bool) {
				t, err := time.ParseInLocation(layout, bytesOf(vals), nloc)
				if err != nil {
					return "", false
				}
				_, zoff := t.Zone()
				return bvLit(uint64(int64(zoff)), 64), true
			}})
			c := new(value)
			*c = locObj{Off: Int{W: 64, S: true, T: &Term{S: app(offN)}}}
			rl = c
		}
		return tuple{TimeV{Sec: Int{W: 64, S: true, T: &Term{S: app(secN)}}, Nsec: ns, Loc: rl}, iface{}}
	}
	stubs["time.Parse"] = parse
	stubs["time.ParseInLocation"] = parse
	stubs["time.FixedZone"] = func(e *Exec, fn *ssa.Function, args []value) value {
		c := new(value)
		*c = locObj{Off: i64(args[1].(Int))}
		return c
	}

	// wall-clock components: uninterpreted functions of the reading in the
	// instant's zone (seconds), evaluated natively on models
	comp := func(method, uf string, native func(time.Time) int) {
		stubs["(time.Time)."+method] = func(e *Exec, fn *ssa.Function, args []value) value {
			tv := args[0].(TimeV)
			sec := tv.localSec()
			if sec.isConc() {
				return mkI64(int64(native(time.Unix(sec.signed(), 0).UTC())))
			}
			e.declTimeUFs()
			e.tpActivate(uf)
			t := "(" + uf + " " + sec.term().S + ")"
			e.ufApps = append(e.ufApps, ufApp{term: t, args: []string{sec.term().S}, eval: func(vals []string) (string, bool) {
				return bvLit(uint64(native(time.Unix(int64(parseBV(vals[0])), 0).UTC())), 64), true
			}})
			return Int{W: 64, S: true, T: &Term{S: t}}
		}
	}
	comp("Year", "tm_year", func(t time.Time) int { return t.Year() })
	comp("Month", "tm_month", func(t time.Time) int { return int(t.Month()) })
	comp("Day", "tm_day", func(t time.Time) int { return t.Day() })
	comp("Hour", "tm_hour", func(t time.Time) int { return t.Hour() })
	comp("Minute", "tm_minute", func(t time.Time) int { return t.Minute() })
	comp("Second", "tm_second", func(t time.Time) int { return t.Second() })
	stubs["(time.Time).Location"] = func(e *Exec, fn *ssa.Function, args []value) value {
		tv := args[0].(TimeV)
		if p, ok := tv.Loc.(*value); ok && p != nil {
			return p
		}
		c := new(value)
		*c = locObj{Off: mkI64(0)}
		return c
	}
	// time.Date(y, mo, d, h, mi, s, ns, loc) for normalised fields: the UTC
	// instant of the civil reading is an uninterpreted function, the zone's
	// offset is subtracted
	date := func(e *Exec, y, mo, d, h, mi, s Int, nsec Int, loc value) TimeV {
		off := locOffset(loc)
		if y.isConc() && mo.isConc() && d.isConc() && h.isConc() && mi.isConc() && s.isConc() && nsec.isConc() && off.isConc() {
			r := time.Date(int(y.signed()), time.Month(mo.signed()), int(d.signed()), int(h.signed()), int(mi.signed()), int(s.signed()), int(nsec.signed()), time.UTC)
			return TimeV{Sec: mkI64(r.Unix() - off.signed()), Nsec: mkI64(int64(r.Nanosecond())), Loc: loc}
		}
		// rebuilding a date from the components of one instant X in another
		// year: Date(y, Month(X), Day(X), Hour(X), Minute(X), Second(X)) reads
		// as X.AddDate(y - Year(X), 0, 0) (that is how AddDate is defined), so
		// the same uninterpreted function stands on both sides of a comparison
		// with AddDate
		if x, ok := componentsOfOne(mo, d, h, mi, s); ok {
			e.declTimeUFs()
			e.tpActivate("tm_year")
			yt := "(tm_year " + x + ")"
			e.ufApps = append(e.ufApps, ufApp{term: yt, args: []string{x}, eval: func(vals []string) (string, bool) {
				return bvLit(uint64(time.Unix(int64(parseBV(vals[0])), 0).UTC().Year()), 64), true
			}})
			dy := intBinop(token.SUB, i64(y), Int{W: 64, S: true, T: &Term{S: yt}}).(Int)
			e.declUF("tm_addyears", "((_ BitVec 64) (_ BitVec 64)) (_ BitVec 64)")
			t := "(tm_addyears " + x + " " + dy.term().S + ")"
			e.ufApps = append(e.ufApps, ufApp{term: t, args: []string{x, dy.term().S}, eval: func(vals []string) (string, bool) {
				r := time.Unix(int64(parseBV(vals[0])), 0).UTC().AddDate(int(int64(parseBV(vals[1]))), 0, 0)
				return bvLit(uint64(r.Unix()), 64), true
			}})
			rs := Int{W: 64, S: true, T: &Term{S: t}}
			if !(off.isConc() && off.signed() == 0) {
				rs = intBinop(token.SUB, rs, off).(Int)
			}
			return TimeV{Sec: rs, Nsec: nsec, Loc: loc}
		}
		e.declTimeUFs()
		e.tpActivate("tm_date6")
		args := []string{i64(y).term().S, i64(mo).term().S, i64(d).term().S, i64(h).term().S, i64(mi).term().S, i64(s).term().S}
		t := "(tm_date6 " + strings.Join(args, " ") + ")"
		e.ufApps = append(e.ufApps, ufApp{term: t, args: args, eval: func(vals []string) (string, bool) {
			v := make([]int, 6)
			for i := range vals {
				v[i] = int(int64(parseBV(vals[i])))
				if v[i] > 1<<40 || v[i] < -(1<<40) {
					return "", false
				}
			}
			return bvLit(uint64(time.Date(v[0], time.Month(v[1]), v[2], v[3], v[4], v[5], 0, time.UTC).Unix()), 64), true
		}})
		rs := Int{W: 64, S: true, T: &Term{S: t}}
		if !(off.isConc() && off.signed() == 0) {
			rs = intBinop(token.SUB, rs, off).(Int)
		}
		return TimeV{Sec: rs, Nsec: nsec, Loc: loc}
	}
	stubs["time.Date"] = func(e *Exec, fn *ssa.Function, args []value) value {
		return date(e, args[0].(Int), args[1].(Int), args[2].(Int), args[3].(Int), args[4].(Int), args[5].(Int), i64(args[6].(Int)), args[7])
	}
	// AddDate(y, 0, 0): an uninterpreted function of the wall-clock reading and
	// the number of years (one application on both sides of every comparison;
	// composing it from Date and the components made the queries intractable)
	stubs["(time.Time).AddDate"] = func(e *Exec, fn *ssa.Function, args []value) value {
		tv := args[0].(TimeV)
		y, m, d := args[1].(Int), args[2].(Int), args[3].(Int)
		_, nsec := tv.secNsec()
		sec := tv.localSec()
		off := locOffset(tv.Loc)
		if sec.isConc() && nsec.isConc() && y.isConc() && m.isConc() && d.isConc() && off.isConc() {
			r := time.Unix(sec.signed(), nsec.signed()).UTC().AddDate(int(y.signed()), int(m.signed()), int(d.signed()))
			return TimeV{Sec: mkI64(r.Unix() - off.signed()), Nsec: mkI64(int64(r.Nanosecond())), Loc: tv.Loc}
		}
		if !m.isConc() || !d.isConc() || m.signed() != 0 || d.signed() != 0 {
			panic(inconclusive{"Time.AddDate with symbolic months/days"})
		}
		e.declUF("tm_addyears", "((_ BitVec 64) (_ BitVec 64)) (_ BitVec 64)")
		t := "(tm_addyears " + sec.term().S + " " + y.term().S + ")"
		e.ufApps = append(e.ufApps, ufApp{term: t, args: []string{sec.term().S, y.term().S}, eval: func(vals []string) (string, bool) {
			r := time.Unix(int64(parseBV(vals[0])), 0).UTC().AddDate(int(int64(parseBV(vals[1]))), 0, 0)
			return bvLit(uint64(r.Unix()), 64), true
		}})
		rs := Int{W: 64, S: true, T: &Term{S: t}}
		if !(off.isConc() && off.signed() == 0) {
			rs = intBinop(token.SUB, rs, off).(Int)
		}
		return TimeV{Sec: rs, Nsec: nsec, Loc: tv.Loc}
	}
}

// componentsOfOne: are the five values syntactically the month, day, hour,
// minute and second of one and the same wall-clock reading X?
func componentsOfOne(mo, d, h, mi, s Int) (string, bool) {
	x := ""
	for i, p := range []struct {
		v  Int
		uf string
	}{{mo, "tm_month"}, {d, "tm_day"}, {h, "tm_hour"}, {mi, "tm_minute"}, {s, "tm_second"}} {
		if p.v.T == nil {
			return "", false
		}
		t := p.v.T.S
		pre := "(" + p.uf + " "
		if !strings.HasPrefix(t, pre) || !strings.HasSuffix(t, ")") {
			return "", false
		}
		a := t[len(pre) : len(t)-1]
		if i == 0 {
			x = a
		} else if a != x {
			return "", false
		}
	}
	return x, true
}

// tpRegEntry is one symbolic time.Parse result with exact fields.
type tpRegEntry struct {
	ok, lsec string
	fields   map[string]string
	done     map[string]bool
}

var tpFieldOfUF = map[string]string{"tm_year": "year", "tm_month": "month", "tm_day": "day", "tm_hour": "hour", "tm_minute": "min", "tm_second": "sec"}

func (e *Exec) tpAxiom(r tpRegEntry, uf string) {
	if r.done[uf] {
		return
	}
	r.done[uf] = true
	if uf == "tm_date6" {
		z64 := func(f string) string { return "((_ zero_extend 32) " + r.fields[f] + ")" }
		e.assert(&Term{S: fmt.Sprintf("(=> %s (= (tm_date6 %s %s %s %s %s %s) %s))", r.ok, z64("year"), z64("month"), z64("day"), z64("hour"), z64("min"), z64("sec"), r.lsec)})
		return
	}
	e.assert(&Term{S: fmt.Sprintf("(=> %s (= (%s %s) ((_ zero_extend 32) %s)))", r.ok, uf, r.lsec, r.fields[tpFieldOfUF[uf]])})
}

// tpActivate: from now on the path uses the component function uf; state its
// exact value for every symbolic parse result so far (later ones state it
// themselves).
func (e *Exec) tpActivate(uf string) {
	if e.tpActive == nil {
		e.tpActive = map[string]bool{}
	}
	if e.tpActive[uf] {
		return
	}
	e.tpActive[uf] = true
	e.declTimeUFs()
	for i := range e.tpReg {
		e.tpAxiom(e.tpReg[i], uf)
	}
}

func (e *Exec) declTimeUFs() {
	for _, uf := range []string{"tm_year", "tm_month", "tm_day", "tm_hour", "tm_minute", "tm_second"} {
		e.declUF(uf, "((_ BitVec 64)) (_ BitVec 64)")
	}
	e.declUF("tm_date6", "((_ BitVec 64) (_ BitVec 64) (_ BitVec 64) (_ BitVec 64) (_ BitVec 64) (_ BitVec 64)) (_ BitVec 64)")
}
