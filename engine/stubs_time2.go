package main

import (
	"fmt"
	"go/token"
	"hash/fnv"
	"strconv"
	"strings"
	"time"

	"golang.org/x/tools/go/ssa"
)

// time.Parse / ParseInLocation, Time.Year and Time.AddDate(y,0,0) are
// uninterpreted functions of their arguments (congruence is what the harness
// oracles need); on concrete arguments they are evaluated natively, and sat
// models are refined against the native functions (ufrefine.go).
// Locations are not modelled: every instant is treated as UTC (stated).

func layoutID(layout string) string {
	h := fnv.New32a()
	h.Write([]byte(layout))
	return fmt.Sprintf("%08x", h.Sum32())
}

func timeOfModel(sec, nsec string) time.Time {
	return time.Unix(int64(parseBV(sec)), int64(parseBV(nsec))).UTC()
}

// locObj is the engine's *time.Location: a fixed offset east of UTC in
// seconds (time.FixedZone).  A nil location (time.UTC, time.Local: the
// process zone is assumed to be UTC) has offset 0.
type locObj struct{ Off Int }

func locOffset(v value) Int {
	if p, ok := v.(*value); ok && p != nil {
		if l, ok := (*p).(locObj); ok {
			return l.Off
		}
	}
	return mkI64(0)
}

func nativeLoc(off int64) *time.Location {
	if off == 0 {
		return time.UTC
	}
	return time.FixedZone("", int(off))
}

func layoutHasZone(layout string) bool {
	for _, z := range []string{"MST", "Z07", "-07", "GMT"} {
		if strings.Contains(layout, z) {
			return true
		}
	}
	return false
}

// localSec is the instant's wall-clock reading in its location, as seconds.
func (t TimeV) localSec() Int {
	sec, _ := t.secNsec()
	off := locOffset(t.Loc)
	if off.isConc() && off.signed() == 0 {
		return sec
	}
	return intBinop(token.ADD, sec, off).(Int)
}

func init() {
	parse := func(e *Exec, fn *ssa.Function, args []value) value {
		layout := argStr(args[0])
		var locV value
		lo := mkI64(0)
		if len(args) > 2 {
			locV = args[2]
			lo = locOffset(locV)
			if !lo.isConc() {
				panic(inconclusive{"time.ParseInLocation with a symbolic location"})
			}
		}
		nloc := nativeLoc(lo.signed())
		resLoc := func(t time.Time) value {
			_, zoff := t.Zone()
			if int64(zoff) == lo.signed() {
				return locV
			}
			c := new(value)
			*c = locObj{Off: mkI64(int64(zoff))}
			return c
		}
		if s, ok := concStr(args[1]); ok {
			t, err := time.ParseInLocation(layout, s, nloc)
			if err != nil {
				return tuple{zeroTimeV, e.newError("parsing time "+strconv.Quote(s)+" as "+strconv.Quote(layout)+": cannot parse", nil)}
			}
			return tuple{TimeV{Sec: mkI64(t.Unix()), Nsec: mkI64(int64(t.Nanosecond())), Loc: resLoc(t)}, iface{}}
		}
		bs := strBytes(args[1])
		if hasOpaque(bs) {
			panic(inconclusive{"time.Parse on opaque string"})
		}
		n := len(bs)
		if n == 0 {
			return tuple{zeroTimeV, e.newError("parsing time \"\": cannot parse", nil)}
		}
		sig := "("
		var as []string
		for _, b := range bs {
			sig += "(_ BitVec 8) "
			as = append(as, b.term().S)
		}
		sig += ")"
		id := layoutID(layout)
		if lo.signed() != 0 {
			id += fmt.Sprintf("_z%d", lo.signed())
			id = strings.ReplaceAll(id, "-", "m")
		}
		okN, secN, nsN, offN := fmt.Sprintf("tp_ok_%s_%d", id, n), fmt.Sprintf("tp_sec_%s_%d", id, n), fmt.Sprintf("tp_nsec_%s_%d", id, n), fmt.Sprintf("tp_off_%s_%d", id, n)
		e.declUF(okN, sig+" Bool")
		e.declUF(secN, sig+" (_ BitVec 64)")
		e.declUF(nsN, sig+" (_ BitVec 64)")
		app := func(f string) string { return "(" + f + " " + joinTerms(as) + ")" }
		bytesOf := func(vals []string) string {
			b := make([]byte, len(vals))
			for i, v := range vals {
				b[i] = byte(parseBV(v))
			}
			return string(b)
		}
		e.ufApps = append(e.ufApps,
			ufApp{term: app(okN), args: as, eval: func(vals []string) (string, bool) {
				_, err := time.ParseInLocation(layout, bytesOf(vals), nloc)
				return strconv.FormatBool(err == nil), true
			}},
			ufApp{term: app(secN), args: as, eval: func(vals []string) (string, bool) {
				t, err := time.ParseInLocation(layout, bytesOf(vals), nloc)
				if err != nil {
					return "", false
				}
				return bvLit(uint64(t.Unix()), 64), true
			}},
			ufApp{term: app(nsN), args: as, eval: func(vals []string) (string, bool) {
				t, err := time.ParseInLocation(layout, bytesOf(vals), nloc)
				if err != nil {
					return "", false
				}
				return bvLit(uint64(t.Nanosecond()), 64), true
			}})
		// supported layouts: acceptance, year, nanosecond and "is the zero
		// instant" are exact functions of the value bytes (stubs_timeparse.go)
		if defs, okT, fields, sup := tpFormula(layout, as, fmt.Sprintf("tpd%d", e.ntpdef)); sup {
			e.ntpdef++
			for _, d := range defs {
				e.sol.Send(d)
			}
			e.assert(&Term{S: "(= " + app(okN) + " " + okT + ")"})
			if fields != nil {
				okA := app(okN)
				e.assert(&Term{S: fmt.Sprintf("(=> %s (= %s ((_ zero_extend 32) %s)))", okA, app(nsN), fields["nsec"])})
				e.declUF("tm_year", "((_ BitVec 64)) (_ BitVec 64)")
				lsec := app(secN)
				if lo.signed() != 0 {
					lsec = "(bvadd " + lsec + " " + bvLit(uint64(lo.signed()), 64) + ")"
				}
				e.assert(&Term{S: fmt.Sprintf("(=> %s (= (tm_year %s) ((_ zero_extend 32) %s)))", okA, lsec, fields["year"])})
				z := time.Unix(-62135596800+lo.signed(), 0).UTC()
				isz := fmt.Sprintf("(and (= %s %s) (= %s %s) (= %s %s) (= %s %s) (= %s %s) (= %s %s))",
					fields["year"], c32(z.Year()), fields["month"], c32(int(z.Month())), fields["day"], c32(z.Day()),
					fields["hour"], c32(z.Hour()), fields["min"], c32(z.Minute()), fields["sec"], c32(z.Second()))
				e.assert(&Term{S: fmt.Sprintf("(=> %s (= (= %s %s) %s))", okA, app(secN), zeroTimeV.Sec.term().S, isz)})
			}
		}
		if !e.branch(&Term{S: app(okN)}) {
			return tuple{zeroTimeV, e.newError("parsing time: cannot parse", nil)}
		}
		ns := Int{W: 64, S: true, T: &Term{S: app(nsN)}}
		e.assert(&Term{S: fmt.Sprintf("(and (bvsge %s %s) (bvslt %s %s))", ns.T.S, bvLit(0, 64), ns.T.S, bvLit(nsPerSec, 64))})
		rl := locV
		if layoutHasZone(layout) {
			// the value may carry its own zone: the result's offset is a
			// function of the value as well
			e.declUF(offN, sig+" (_ BitVec 64)")
			e.ufApps = append(e.ufApps, ufApp{term: app(offN), args: as, eval: func(vals []string) (string, bool) {
				t, err := time.ParseInLocation(layout, bytesOf(vals), nloc)
				if err != nil {
					return "", false
				}
				_, zoff := t.Zone()
				return bvLit(uint64(int64(zoff)), 64), true
			}})
			c := new(value)
			*c = locObj{Off: Int{W: 64, S: true, T: &Term{S: app(offN)}}}
			rl = c
		}
		return tuple{TimeV{Sec: Int{W: 64, S: true, T: &Term{S: app(secN)}}, Nsec: ns, Loc: rl}, iface{}}
	}
	stubs["time.Parse"] = parse
	stubs["time.ParseInLocation"] = parse
	stubs["time.FixedZone"] = func(e *Exec, fn *ssa.Function, args []value) value {
		c := new(value)
		*c = locObj{Off: i64(args[1].(Int))}
		return c
	}

	stubs["(time.Time).Year"] = func(e *Exec, fn *ssa.Function, args []value) value {
		tv := args[0].(TimeV)
		sec := tv.localSec()
		if sec.isConc() {
			return mkI64(int64(time.Unix(sec.signed(), 0).UTC().Year()))
		}
		e.declUF("tm_year", "((_ BitVec 64)) (_ BitVec 64)")
		t := "(tm_year " + sec.term().S + ")"
		e.ufApps = append(e.ufApps, ufApp{term: t, args: []string{sec.term().S}, eval: func(vals []string) (string, bool) {
			return bvLit(uint64(time.Unix(int64(parseBV(vals[0])), 0).UTC().Year()), 64), true
		}})
		return Int{W: 64, S: true, T: &Term{S: t}}
	}
	stubs["(time.Time).AddDate"] = func(e *Exec, fn *ssa.Function, args []value) value {
		tv := args[0].(TimeV)
		y, m, d := args[1].(Int), args[2].(Int), args[3].(Int)
		_, nsec := tv.secNsec()
		sec := tv.localSec()
		off := locOffset(tv.Loc)
		if sec.isConc() && nsec.isConc() && y.isConc() && m.isConc() && d.isConc() && off.isConc() {
			r := time.Unix(sec.signed(), nsec.signed()).UTC().AddDate(int(y.signed()), int(m.signed()), int(d.signed()))
			return TimeV{Sec: mkI64(r.Unix() - off.signed()), Nsec: mkI64(int64(r.Nanosecond())), Loc: tv.Loc}
		}
		if !m.isConc() || !d.isConc() || m.signed() != 0 || d.signed() != 0 {
			panic(inconclusive{"Time.AddDate with symbolic months/days"})
		}
		e.declUF("tm_addyears", "((_ BitVec 64) (_ BitVec 64)) (_ BitVec 64)")
		t := "(tm_addyears " + sec.term().S + " " + y.term().S + ")"
		e.ufApps = append(e.ufApps, ufApp{term: t, args: []string{sec.term().S, y.term().S}, eval: func(vals []string) (string, bool) {
			r := time.Unix(int64(parseBV(vals[0])), 0).UTC().AddDate(int(int64(parseBV(vals[1]))), 0, 0)
			return bvLit(uint64(r.Unix()), 64), true
		}})
		rs := Int{W: 64, S: true, T: &Term{S: t}}
		if !(off.isConc() && off.signed() == 0) {
			rs = intBinop(token.SUB, rs, off).(Int)
		}
		return TimeV{Sec: rs, Nsec: nsec, Loc: tv.Loc}
	}
}
