package main

import (
	"fmt"
	"hash/fnv"
	"strconv"
	"time"

	"golang.org/x/tools/go/ssa"
)

// time.Parse / ParseInLocation, Time.Year and Time.AddDate(y,0,0) are
// uninterpreted functions of their arguments (congruence is what the harness
// oracles need); on concrete arguments they are evaluated natively, and sat
// models are refined against the native functions (ufrefine.go).
// Locations are not modelled: every instant is treated as UTC (stated).

func layoutID(layout string) string {
	h := fnv.New32a()
	h.Write([]byte(layout))
	return fmt.Sprintf("%08x", h.Sum32())
}

func timeOfModel(sec, nsec string) time.Time {
	return time.Unix(int64(parseBV(sec)), int64(parseBV(nsec))).UTC()
}

func init() {
	parse := func(e *Exec, fn *ssa.Function, args []value) value {
		layout := argStr(args[0])
		if s, ok := concStr(args[1]); ok {
			t, err := time.Parse(layout, s)
			if err != nil {
				return tuple{zeroTimeV, e.newError("parsing time "+strconv.Quote(s)+" as "+strconv.Quote(layout)+": cannot parse", nil)}
			}
			return tuple{TimeV{Sec: mkI64(t.Unix()), Nsec: mkI64(int64(t.Nanosecond()))}, iface{}}
		}
		bs := strBytes(args[1])
		if hasOpaque(bs) {
			panic(inconclusive{"time.Parse on opaque string"})
		}
		n := len(bs)
		if n == 0 {
			return tuple{zeroTimeV, e.newError("parsing time \"\": cannot parse", nil)}
		}
		sig := "("
		var as []string
		for _, b := range bs {
			sig += "(_ BitVec 8) "
			as = append(as, b.term().S)
		}
		sig += ")"
		id := layoutID(layout)
		okN, secN, nsN := fmt.Sprintf("tp_ok_%s_%d", id, n), fmt.Sprintf("tp_sec_%s_%d", id, n), fmt.Sprintf("tp_nsec_%s_%d", id, n)
		e.declUF(okN, sig+" Bool")
		e.declUF(secN, sig+" (_ BitVec 64)")
		e.declUF(nsN, sig+" (_ BitVec 64)")
		app := func(f string) string { return "(" + f + " " + joinTerms(as) + ")" }
		bytesOf := func(vals []string) string {
			b := make([]byte, len(vals))
			for i, v := range vals {
				b[i] = byte(parseBV(v))
			}
			return string(b)
		}
		e.ufApps = append(e.ufApps,
			ufApp{term: app(okN), args: as, eval: func(vals []string) (string, bool) {
				_, err := time.Parse(layout, bytesOf(vals))
				return strconv.FormatBool(err == nil), true
			}},
			ufApp{term: app(secN), args: as, eval: func(vals []string) (string, bool) {
				t, err := time.Parse(layout, bytesOf(vals))
				if err != nil {
					return "", false
				}
				return bvLit(uint64(t.Unix()), 64), true
			}},
			ufApp{term: app(nsN), args: as, eval: func(vals []string) (string, bool) {
				t, err := time.Parse(layout, bytesOf(vals))
				if err != nil {
					return "", false
				}
				return bvLit(uint64(t.Nanosecond()), 64), true
			}})
		if !e.branch(&Term{S: app(okN)}) {
			return tuple{zeroTimeV, e.newError("parsing time: cannot parse", nil)}
		}
		ns := Int{W: 64, S: true, T: &Term{S: app(nsN)}}
		e.assert(&Term{S: fmt.Sprintf("(and (bvsge %s %s) (bvslt %s %s))", ns.T.S, bvLit(0, 64), ns.T.S, bvLit(nsPerSec, 64))})
		return tuple{TimeV{Sec: Int{W: 64, S: true, T: &Term{S: app(secN)}}, Nsec: ns}, iface{}}
	}
	stubs["time.Parse"] = parse
	stubs["time.ParseInLocation"] = parse

	stubs["(time.Time).Year"] = func(e *Exec, fn *ssa.Function, args []value) value {
		sec, nsec := args[0].(TimeV).secNsec()
		if sec.isConc() && nsec.isConc() {
			return mkI64(int64(time.Unix(sec.signed(), nsec.signed()).UTC().Year()))
		}
		e.declUF("tm_year", "((_ BitVec 64)) (_ BitVec 64)")
		t := "(tm_year " + sec.term().S + ")"
		e.ufApps = append(e.ufApps, ufApp{term: t, args: []string{sec.term().S}, eval: func(vals []string) (string, bool) {
			return bvLit(uint64(time.Unix(int64(parseBV(vals[0])), 0).UTC().Year()), 64), true
		}})
		return Int{W: 64, S: true, T: &Term{S: t}}
	}
	stubs["(time.Time).AddDate"] = func(e *Exec, fn *ssa.Function, args []value) value {
		tv := args[0].(TimeV)
		y, m, d := args[1].(Int), args[2].(Int), args[3].(Int)
		sec, nsec := tv.secNsec()
		if sec.isConc() && nsec.isConc() && y.isConc() && m.isConc() && d.isConc() {
			r := time.Unix(sec.signed(), nsec.signed()).UTC().AddDate(int(y.signed()), int(m.signed()), int(d.signed()))
			return TimeV{Sec: mkI64(r.Unix()), Nsec: mkI64(int64(r.Nanosecond())), Loc: tv.Loc}
		}
		if !m.isConc() || !d.isConc() || m.signed() != 0 || d.signed() != 0 {
			panic(inconclusive{"Time.AddDate with symbolic months/days"})
		}
		e.declUF("tm_addyears", "((_ BitVec 64) (_ BitVec 64)) (_ BitVec 64)")
		t := "(tm_addyears " + sec.term().S + " " + y.term().S + ")"
		e.ufApps = append(e.ufApps, ufApp{term: t, args: []string{sec.term().S, y.term().S}, eval: func(vals []string) (string, bool) {
			r := time.Unix(int64(parseBV(vals[0])), 0).UTC().AddDate(int(int64(parseBV(vals[1]))), 0, 0)
			return bvLit(uint64(r.Unix()), 64), true
		}})
		return TimeV{Sec: Int{W: 64, S: true, T: &Term{S: t}}, Nsec: nsec, Loc: tv.Loc}
	}
}
