package main

import (
	"encoding/json"
	"fmt"
	"os"
	"os/exec"
	"path/filepath"
	"regexp"
	"runtime"
	"sort"
	"strconv"
	"strings"
	"time"

	"golang.org/x/tools/go/ssa"
)

// verifRoot is where harnesses, known findings and (by default) evidence
// live: /verif, or the snapshot given by VERIF_ROOT for background runs.
var verifRoot = func() string {
	if d := os.Getenv("VERIF_ROOT"); d != "" {
		return d
	}
	return "/verif"
}()

// outRoot is where evidence and replay files go: /verif, unless a self-test
// run against a scratch tree (VERIF_REPO) redirects them with VERIF_OUT.
func outRoot() string {
	if d := os.Getenv("VERIF_OUT"); d != "" {
		return d
	}
	return verifRoot
}

// Subst is a textual substitution applied to a copy of a repository file
// for native replay only: it routes an environment call (clock, constructor,
// matcher) to the native counterpart of the engine's stub.
type Subst struct {
	File string // path relative to the repository root
	Old  string
	New  string
	Re   bool // Old is a regular expression, New its replacement template; no match is not an error
}

// JobDef is one harness entry explored under given bounds.
type JobDef struct {
	Name     string
	Pkg      string   // import path
	Dir      string   // directory relative to the repository root
	Harness  []string // files under /verif/harness
	Entry    string
	Params   map[string]int64
	MaxPaths int64
	MaxSteps int64
	NoNative bool // no native replay / translator validation possible for this job
	// NativeRepeat > 1: a counterexample is run natively up to this many times
	// and is confirmed by any run that reproduces it (jobs whose native runs
	// depend on Go's randomised map iteration or on timing).
	NativeRepeat int
	Race     bool // native runs are built with the race detector; a report during a case is that case's verdict
	// EngineOnly / NativeOnly are harness files used on one side only
	// (bodyless declarations of engine accessors / their native bodies).
	EngineOnly []string
	NativeOnly []string
	Substs   []Subst
	Bound    string // human-readable statement of the bound
	// GenFiles are extra generated harness sources (name -> content).
	GenFiles map[string]string
}

type CheckDef struct {
	ID          string
	Level       string
	Jobs        func(tier string) []JobDef
	Assumptions []string
	Outside     []string
	Only        []string // assertion-id prefixes owned by this property
	// Prepare may generate files (e.g. compile mtail programs natively)
	// before jobs are built; it returns extra assumptions or an error.
	Prepare func(tier string, scratch string) error
}

var checks = map[string]*CheckDef{}

func register(c *CheckDef) { checks[c.ID] = c }

// ---- known findings ----

type KnownEntry struct {
	Kind     string `json:"kind"` // "known" or "fixed"
	ID       string `json:"id"`
	Property string `json:"property"`
	What     string `json:"what"`
	Line     string `json:"line,omitempty"`
}

func loadKnown() []KnownEntry {
	raw, err := os.ReadFile(filepath.Join(verifRoot, "known_findings.json"))
	if err != nil {
		return nil
	}
	var f struct {
		Entries []KnownEntry `json:"entries"`
	}
	if err := json.Unmarshal(raw, &f); err != nil {
		fmt.Fprintln(os.Stderr, "known_findings.json:", err)
		return nil
	}
	return f.Entries
}

// ---- program cache ----

type loadKey string

var loadCache = map[loadKey]*Loaded{}

func harnessFiles(j JobDef, native bool) (map[string][]byte, []string, error) {
	ov := map[string][]byte{}
	var names []string
	pkgName := ""
	all := append([]string{}, j.Harness...)
	if native {
		all = append(all, j.NativeOnly...)
	} else {
		all = append(all, j.EngineOnly...)
	}
	for i, h := range all {
		src, err := os.ReadFile(filepath.Join(verifRoot, "harness", h))
		if err != nil {
			return nil, nil, err
		}
		if pkgName == "" {
			m := regexp.MustCompile(`(?m)^package (\w+)`).FindSubmatch(src)
			pkgName = string(m[1])
		}
		n := fmt.Sprintf("zz_verif_h%d_%s", i, filepath.Base(h))
		ov[n] = src
		names = append(names, n)
	}
	var gnames []string
	for n := range j.GenFiles {
		gnames = append(gnames, n)
	}
	sort.Strings(gnames)
	for _, n := range gnames {
		src := []byte(j.GenFiles[n])
		if pkgName == "" {
			m := regexp.MustCompile(`(?m)^package (\w+)`).FindSubmatch(src)
			pkgName = string(m[1])
		}
		ov["zz_verif_gen_"+n] = src
		names = append(names, "zz_verif_gen_"+n)
	}
	if d := os.Getenv("VERIF_DUMPGEN"); d != "" {
		os.MkdirAll(d, 0o755)
		for n, src := range ov {
			os.WriteFile(filepath.Join(d, n), src, 0o644)
		}
	}
	ov["__pkgname__"] = []byte(pkgName)
	return ov, names, nil
}

func vocabFor(pkgName, tmpl string) ([]byte, error) {
	src, err := os.ReadFile(filepath.Join(verifRoot, "harness", "common", tmpl))
	if err != nil {
		return nil, err
	}
	return []byte(strings.Replace(string(src), "PKGNAME", pkgName, 1)), nil
}

func loadJob(j JobDef) (*Loaded, *ssa.Package, error) {
	files, _, err := harnessFiles(j, false)
	if err != nil {
		return nil, nil, err
	}
	pkgName := string(files["__pkgname__"])
	delete(files, "__pkgname__")
	key := j.Pkg
	var ns []string
	for n := range files {
		ns = append(ns, n)
	}
	sort.Strings(ns)
	for _, n := range ns {
		key += "|" + n + fmt.Sprint(len(files[n]))
		key += fmt.Sprintf("%x", hashBytes(files[n]))
	}
	if l, ok := loadCache[loadKey(key)]; ok {
		return l, l.pkgs[j.Pkg], nil
	}
	ov := map[string][]byte{}
	dir := filepath.Join(repoDir(), j.Dir)
	for n, src := range files {
		ov[filepath.Join(dir, n)] = src
	}
	voc, err := vocabFor(pkgName, "vocab.go.tmpl")
	if err != nil {
		return nil, nil, err
	}
	ov[filepath.Join(dir, "zz_verif_vocab.go")] = voc
	l, err := loadProgram(ov, j.Pkg)
	if err != nil {
		return nil, nil, err
	}
	loadCache[loadKey(key)] = l
	return l, l.pkgs[j.Pkg], nil
}

func hashBytes(b []byte) uint64 {
	var h uint64 = 1469598103934665603
	for _, c := range b {
		h ^= uint64(c)
		h *= 1099511628211
	}
	return h
}

// ---- native replay ----

type replayCase struct {
	Entry  string           `json:"entry"`
	Inputs []InputRec       `json:"inputs"`
	Params map[string]int64 `json:"params"`
	Only   []string         `json:"only,omitempty"`
}

type replayResult struct {
	Status string   `json:"status"`
	Out    []string `json:"out"`
}

var entryRe = regexp.MustCompile(`(?m)^func (Harness\w+)\(\)`)

// nativeRun compiles the harness natively into the package under test (via
// go test -overlay, nothing is written under /repo) and runs the cases.
func nativeRun(j JobDef, cases []replayCase) ([]replayResult, string, error) {
	scratch, err := os.MkdirTemp("", "verif-native-")
	if err != nil {
		return nil, "", err
	}
	defer os.RemoveAll(scratch)
	files, names, err := harnessFiles(j, true)
	if err != nil {
		return nil, "", err
	}
	pkgName := string(files["__pkgname__"])
	delete(files, "__pkgname__")
	repl := map[string]string{}
	dir := filepath.Join(repoDir(), j.Dir)
	var entries []string
	for _, n := range names {
		p := filepath.Join(scratch, n)
		if err := os.WriteFile(p, files[n], 0o644); err != nil {
			return nil, "", err
		}
		repl[filepath.Join(dir, n)] = p
		for _, m := range entryRe.FindAllSubmatch(files[n], -1) {
			entries = append(entries, string(m[1]))
		}
	}
	nat, err := vocabFor(pkgName, "native.go.tmpl")
	if err != nil {
		return nil, "", err
	}
	np := filepath.Join(scratch, "zz_verif_native.go")
	os.WriteFile(np, nat, 0o644)
	repl[filepath.Join(dir, "zz_verif_native.go")] = np
	var tb strings.Builder
	fmt.Fprintf(&tb, "package %s\n\nimport \"testing\"\n\nfunc TestVerifReplay(t *testing.T) {\n\tverifRunCases(map[string]func(){\n", pkgName)
	for _, en := range entries {
		fmt.Fprintf(&tb, "\t\t%q: %s,\n", en, en)
	}
	tb.WriteString("\t})\n}\n")
	tp := filepath.Join(scratch, "zz_verif_replay_test.go")
	os.WriteFile(tp, []byte(tb.String()), 0o644)
	repl[filepath.Join(dir, "zz_verif_replay_test.go")] = tp
	// source substitutions
	bySubstFile := map[string][]Subst{}
	for _, s := range j.Substs {
		bySubstFile[s.File] = append(bySubstFile[s.File], s)
	}
	for f, ss := range bySubstFile {
		src, err := os.ReadFile(filepath.Join(repoDir(), f))
		if err != nil {
			return nil, "", err
		}
		txt := string(src)
		for _, s := range ss {
			if s.Re {
				txt = regexp.MustCompile(s.Old).ReplaceAllString(txt, s.New)
				continue
			}
			if !strings.Contains(txt, s.Old) {
				return nil, "", fmt.Errorf("replay substitution: %q not found in %s", s.Old, f)
			}
			txt = strings.ReplaceAll(txt, s.Old, s.New)
		}
		sp := filepath.Join(scratch, "subst_"+strings.ReplaceAll(f, "/", "_"))
		os.WriteFile(sp, []byte(txt), 0o644)
		repl[filepath.Join(repoDir(), f)] = sp
	}
	ovb, _ := json.Marshal(map[string]interface{}{"Replace": repl})
	ovp := filepath.Join(scratch, "overlay.json")
	os.WriteFile(ovp, ovb, 0o644)
	cb, _ := json.Marshal(cases)
	cp := filepath.Join(scratch, "cases.json")
	os.WriteFile(cp, cb, 0o644)
	outp := filepath.Join(scratch, "out.json")
	targs := []string{"test", "-vet=off", "-count=1", "-timeout", "300s", "-overlay", ovp, "-run", "^TestVerifReplay$"}
	if j.Race {
		targs = append(targs, "-race")
	}
	cmd := exec.Command("go", append(targs, j.Pkg)...)
	cmd.Dir = repoDir()
	// glog of the test binary writes its files to the temp dir: keep them in
	// the scratch directory, which is removed when the run is over
	tmpd := filepath.Join(scratch, "tmp")
	os.MkdirAll(tmpd, 0o755)
	cmd.Env = append(os.Environ(), "GOFLAGS=-mod=mod", "GOPROXY=off", "GOSUMDB=off", "GOTOOLCHAIN=local",
		"VERIF_REPLAY="+cp, "VERIF_REPLAY_OUT="+outp, "TMPDIR="+tmpd)
	out, runErr := cmd.CombinedOutput()
	raw, err := os.ReadFile(outp)
	if err != nil {
		return nil, string(out), fmt.Errorf("native run produced no result (%v): %s", runErr, tail(string(out), 2000))
	}
	var res []replayResult
	if err := json.Unmarshal(raw, &res); err != nil {
		return nil, string(out), err
	}
	if j.Race {
		// race reports are printed while the racing case runs: attribute them
		// by the case markers the native runner prints
		cur := -1
		for _, line := range strings.Split(string(out), "\n") {
			switch {
			case strings.HasPrefix(line, "VERIF-CASE-BEGIN "):
				cur, _ = strconv.Atoi(strings.TrimPrefix(line, "VERIF-CASE-BEGIN "))
			case strings.HasPrefix(line, "VERIF-CASE-END"):
				cur = -1
			case strings.Contains(line, "WARNING: DATA RACE") && cur >= 0 && cur < len(res):
				if !strings.HasPrefix(res[cur].Status, "RACE") {
					res[cur].Status = "RACE reported by the race detector"
				}
			}
		}
	}
	return res, string(out), nil
}

func tail(s string, n int) string {
	if len(s) > n {
		return s[len(s)-n:]
	}
	return s
}

// ---- running a check ----

type jobReport struct {
	Name      string  `json:"name"`
	Entry     string  `json:"entry"`
	Bound     string  `json:"bound,omitempty"`
	Params    map[string]int64 `json:"params,omitempty"`
	Paths     int64   `json:"paths"`
	Aborted   int64   `json:"paths_cut_by_assume"`
	Decisions int64   `json:"decisions"`
	Steps     int64   `json:"ssa_instructions_executed"`
	MaxPathSteps int64 `json:"max_instructions_on_one_path"`
	Queries   int     `json:"queries"`
	Sat       int     `json:"sat"`
	Unsat     int     `json:"unsat"`
	Unknown   int     `json:"unknown"`
	SolverS   float64 `json:"solver_s"`
	MaxQueryS float64 `json:"max_query_s"`
	WallS     float64 `json:"wall_s"`
	LoadS     float64 `json:"load_s"`
	Asserts   map[string]int64 `json:"assert_sites_reached"`
	AssertsSym map[string]int64 `json:"assert_sites_discharged_by_solver"`
	Violations int    `json:"violations"`
	Validated int     `json:"traces_validated"`
}

type pendingNative struct {
	key     string
	j       JobDef
	cases   []replayCase
	process func(res []replayResult)
}

// nativeKey identifies the set of files a native run is compiled from.
func nativeKey(j JobDef) string {
	k := j.Pkg + "|" + strings.Join(j.Harness, ",") + "|" + strings.Join(j.NativeOnly, ",") + fmt.Sprint(j.Race)
	var gn []string
	for n, src := range j.GenFiles {
		gn = append(gn, fmt.Sprintf("%s:%x", n, hashBytes([]byte(src))))
	}
	sort.Strings(gn)
	k += "|" + strings.Join(gn, ",")
	for _, s := range j.Substs {
		k += "|" + s.File + ":" + s.Old + "=>" + s.New
	}
	return k
}

type checkOutcome struct {
	violations   []string // VIOLATION lines
	known        []string // KNOWN-FINDING lines
	inconclusive []string
}

func cmdCheck(args []string) int {
	if len(args) < 1 {
		fmt.Println("usage: gosym check <ID> [--tier quick|thorough]")
		return 2
	}
	id := args[0]
	tier := os.Getenv("VERIF_TIER")
	workers := runtime.NumCPU()
	for i := 1; i < len(args); i++ {
		switch args[i] {
		case "--tier", "-tier":
			i++
			tier = args[i]
		case "--workers":
			i++
			workers, _ = strconv.Atoi(args[i])
		}
	}
	if tier == "" {
		tier = "quick"
	}
	seed := int64(0)
	if s := os.Getenv("VERIF_SEED"); s != "" {
		seed, _ = strconv.ParseInt(s, 10, 64)
	}
	c := checks[id]
	if c == nil {
		fmt.Println("unknown check", id)
		return 2
	}
	t0 := time.Now()
	scratch, _ := os.MkdirTemp("", "verif-check-")
	defer os.RemoveAll(scratch)
	if c.Prepare != nil {
		if err := c.Prepare(tier, scratch); err != nil {
			fmt.Println("INCONCLUSIVE: prepare:", err)
			return 2
		}
	}
	knownAll := loadKnown()
	knownIDs := map[string]bool{}
	knownWhat := map[string]string{}
	for _, k := range knownAll {
		if k.Kind == "known" && k.Property == id {
			knownIDs[k.ID] = true
			knownWhat[k.ID] = k.What
		}
	}
	var out checkOutcome
	var reports []jobReport
	total := newStats()
	funcs := map[string]int64{}
	stubsUsed := map[string]int64{}
	var samples []interface{}
	validated := 0
	knownSeen := map[string]bool{}
	nviol := 0
	jobs := c.Jobs(tier)
	if f := os.Getenv("VERIF_JOBS"); f != "" {
		// debugging aid: run only the jobs whose name matches
		re := regexp.MustCompile(f)
		var keep []JobDef
		for _, j := range jobs {
			if re.MatchString(j.Name) {
				keep = append(keep, j)
			}
		}
		jobs = keep
	}
	var pend []pendingNative
	os.MkdirAll(filepath.Join(outRoot(), "replay"), 0o755)
	for _, j := range jobs {
		l, pkg, err := loadJob(j)
		if err != nil {
			fmt.Println("INCONCLUSIVE: load of job", j.Name, ":", err)
			return 2
		}
		fn := pkg.Func(j.Entry)
		if fn == nil {
			fmt.Println("INCONCLUSIVE: entry not found:", j.Entry)
			return 2
		}
		cfg := JobConfig{Name: j.Name, MaxSteps: j.MaxSteps, MaxPaths: j.MaxPaths, Workers: workers, Samples: 2, KnownIDs: knownIDs, Params: j.Params, Only: c.Only}
		if cfg.MaxSteps == 0 {
			cfg.MaxSteps = 5_000_000
		}
		// budgets: exceeding one makes the run inconclusive, never a pass
		cfg.Deadline = time.Now().Add(12 * time.Minute)
		cfg.TimeoutMs = 60000
		if cfg.MaxPaths == 0 {
			cfg.MaxPaths = 4_000_000
		}
		if tier == "thorough" {
			cfg.TimeoutMs = 120000
			cfg.Deadline = time.Now().Add(45 * time.Minute)
			cfg.MaxPaths = 0
		}
		if lg := os.Getenv("VERIF_SMTLOG"); lg != "" {
			cfg.SMTLog = lg
		}
		// VERIF_SOLVER=z3-new (or "cvc5") discharges every query of the run
		// with another solver: used to diff solvers after an encoding change
		switch sv := os.Getenv("VERIF_SOLVER"); sv {
		case "":
		case "cvc5":
			cfg.SolverBin, cfg.SolverArgs = "cvc5", []string{"--incremental", "--produce-models", "--lang=smt2", "--tlimit-per=60000"}
		default:
			cfg.SolverBin, cfg.SolverArgs = sv, []string{"-in"}
		}
		// self-test knobs: validate many more paths against the native
		// build than the default 3 per job (VERIF_SAMPLES per worker from
		// the start of its share, VERIF_SAMPLE_EVERY: every n-th path)
		maxSample := 3
		if n, err := strconv.Atoi(os.Getenv("VERIF_SAMPLES")); err == nil && n > 0 {
			cfg.Samples = n
			maxSample = n * workers
		}
		if n, err := strconv.Atoi(os.Getenv("VERIF_SAMPLE_EVERY")); err == nil && n > 0 {
			cfg.SampleEvery = n
			maxSample = 1 << 30
		}
		t1 := time.Now()
		st := RunJob(l.prog, fn, []*ssa.Function{pkg.Func("init")}, cfg)
		wall := time.Since(t1).Seconds()
		rep := jobReport{Name: j.Name, Entry: j.Entry, Bound: j.Bound, Params: j.Params, Paths: st.Paths, Aborted: st.Aborted, Decisions: st.Decisions, Steps: st.Steps,
			MaxPathSteps: st.MaxPathStep, Queries: st.Queries, Sat: st.Sat, Unsat: st.Unsat, Unknown: st.Unknown, SolverS: st.SolverTime.Seconds(), MaxQueryS: st.MaxQuery.Seconds(),
			WallS: wall, LoadS: l.LoadS, Asserts: st.Asserts, AssertsSym: st.AssertsSym, Violations: len(st.Viol)}
		fmt.Printf("[%s] job %s: paths=%d cut=%d decisions=%d queries=%d (sat %d unsat %d unknown %d) solver=%.1fs wall=%.1fs violations=%d known=%d\n",
			id, j.Name, st.Paths, st.Aborted, st.Decisions, st.Queries, st.Sat, st.Unsat, st.Unknown, st.SolverTime.Seconds(), wall, len(st.Viol), len(st.KnownHit))
		for f, n := range st.FuncInstrs {
			funcs[f] += n
		}
		for f, n := range st.Stubs {
			stubsUsed[f] += n
		}
		for _, s := range st.Incon {
			out.inconclusive = append(out.inconclusive, j.Name+": "+s)
		}
		if st.Paths == 0 {
			out.inconclusive = append(out.inconclusive, j.Name+": no complete path (vacuous harness)")
		}
		// --- confirm violations natively ---
		var cases []replayCase
		var caseKind []string
		seenV := map[string]int{}
		for _, v := range st.Viol {
			if seenV[v.ID] >= 2 {
				continue
			}
			seenV[v.ID]++
			cases = append(cases, replayCase{Entry: j.Entry, Inputs: v.Inputs, Params: j.Params, Only: c.Only})
			caseKind = append(caseKind, "viol:"+v.ID+":"+v.Msg)
			for k := 1; k < j.NativeRepeat; k++ {
				cases = append(cases, replayCase{Entry: j.Entry, Inputs: v.Inputs, Params: j.Params, Only: c.Only})
				caseKind = append(caseKind, "again:"+v.ID+":"+v.Msg)
			}
		}
		var knownOrder []string
		for k := range st.KnownHit {
			knownOrder = append(knownOrder, k)
		}
		sort.Strings(knownOrder)
		for _, k := range knownOrder {
			if knownSeen[k] {
				continue
			}
			v := st.KnownHit[k]
			cases = append(cases, replayCase{Entry: j.Entry, Inputs: v.Inputs, Params: j.Params, Only: c.Only})
			caseKind = append(caseKind, "known:"+k)
		}
		nSample := 0
		for _, s := range st.Samples {
			if nSample >= maxSample {
				break
			}
			in := s["inputs"].([]InputRec)
			cases = append(cases, replayCase{Entry: j.Entry, Inputs: in, Params: j.Params, Only: c.Only})
			caseKind = append(caseKind, "sample")
			nSample++
			if len(samples) < 6 {
				samples = append(samples, map[string]interface{}{"job": j.Name, "inputs": compactInputs(in), "observed": s["observed"]})
			}
		}
		if len(cases) > 0 && !j.NoNative {
			// native runs are batched per harness file set after all jobs
			j, cases, caseKind, cfg, l, fn, pkg, repIdx := j, cases, caseKind, cfg, l, fn, pkg, len(reports)
			pend = append(pend, pendingNative{key: nativeKey(j), j: j, cases: cases, process: func(res []replayResult) {
				rep := &reports[repIdx]
				for i, r := range res {
					kind := caseKind[i]
					switch {
					case strings.HasPrefix(kind, "again:"):
						// a further native run of the preceding counterexample: handled with it
					case strings.HasPrefix(kind, "viol:"):
						// any of the repeated native runs that reproduces it confirms it
						for k := i + 1; k < len(res) && strings.HasPrefix(caseKind[k], "again:") && !nativeViolates(r); k++ {
							r = res[k]
						}
						if nativeViolates(r) {
							nviol++
							p := filepath.Join(outRoot(), "replay", fmt.Sprintf("%s-%d.json", id, nviol))
							writeReplay(p, id, j, cases[i], kind, r)
							out.violations = append(out.violations, fmt.Sprintf("VIOLATION property=%s replay=%s", id, p))
							fmt.Printf("  confirmed natively: %s -> %s %v\n", kind, r.Status, r.Out)
						} else {
							out.inconclusive = append(out.inconclusive, fmt.Sprintf("%s: counterexample for %s did not reproduce natively (status %s %v): engine or stub is wrong", j.Name, kind, r.Status, r.Out))
						}
					case strings.HasPrefix(kind, "known:"):
						k := strings.TrimPrefix(kind, "known:")
						if nativeViolates(r) {
							knownSeen[k] = true
							out.known = append(out.known, fmt.Sprintf("KNOWN-FINDING: property=%s %s [%s; reproduced natively: %s]", id, knownWhat[k], k, describeInputs(cases[i].Inputs)))
						} else {
							out.inconclusive = append(out.inconclusive, fmt.Sprintf("%s: known finding %s did not reproduce natively (status %s)", j.Name, k, r.Status))
						}
					case kind == "sample":
						// translator validation: engine concrete run vs native run
						vec := make([]string, len(cases[i].Inputs))
						for k, in := range cases[i].Inputs {
							vec[k] = in.Val
						}
						ccfg := cfg
						ccfg.Concrete = vec
						ccfg.Workers = 1
						ccfg.Samples = 0
						ccfg.SampleEvery = 0
						// its own budget: the job's deadline may have passed while later jobs ran
						ccfg.Deadline = time.Now().Add(2 * time.Minute)
						cst := RunJob(l.prog, fn, []*ssa.Function{pkg.Func("init")}, ccfg)
						var eobs []string
						if len(cst.Observed) > 0 {
							eobs = cst.Observed[0]
						}
						var nobs []string
						for _, o := range r.Out {
							if strings.HasPrefix(o, "OBSERVE ") {
								nobs = append(nobs, strings.TrimPrefix(o, "OBSERVE "))
							}
						}
						engineOK := len(cst.Viol) == 0 && cst.Paths == 1
						nativeOK := r.Status == "ok"
						if engineOK != nativeOK || strings.Join(eobs, "\n") != strings.Join(nobs, "\n") {
							out.inconclusive = append(out.inconclusive, fmt.Sprintf("%s: translator validation mismatch on %s: engine ok=%v%s obs=%v / native status=%s out=%v", j.Name, describeInputs(cases[i].Inputs), engineOK, engineWhy(cst), eobs, r.Status, r.Out))
						} else {
							validated++
							rep.Validated++
						}
					}
				}
			}})
		} else if j.NoNative {
			for _, v := range st.Viol {
				_ = v
			}
			if len(st.Viol) > 0 || len(st.KnownHit) > 0 {
				out.inconclusive = append(out.inconclusive, j.Name+": violation found but this job has no native replay")
			}
		}
		// unlisted known-ids that were hit do not matter; listed ones not hit are fine
		reports = append(reports, rep)
		total.merge(st)
	}
	// batched native replay / translator validation
	var order []string
	groups := map[string][]pendingNative{}
	for _, pn := range pend {
		if _, ok := groups[pn.key]; !ok {
			order = append(order, pn.key)
		}
		groups[pn.key] = append(groups[pn.key], pn)
	}
	for _, k := range order {
		g := groups[k]
		var all []replayCase
		for _, pn := range g {
			all = append(all, pn.cases...)
		}
		res, _, err := nativeRun(g[0].j, all)
		if err != nil {
			out.inconclusive = append(out.inconclusive, g[0].j.Name+": native replay failed: "+err.Error())
			continue
		}
		off := 0
		for _, pn := range g {
			pn.process(res[off : off+len(pn.cases)])
			off += len(pn.cases)
		}
	}
	// evidence
	ev := map[string]interface{}{
		"property_id": id,
		"tier":        tier,
		"seed":        seed,
		"level":       c.Level,
		"wall_s":      time.Since(t0).Seconds(),
		"violations":  len(out.violations),
		"assumptions": c.Assumptions,
	}
	var fl []string
	for f := range funcs {
		fl = append(fl, f)
	}
	sort.Strings(fl)
	fenc := map[string]int64{}
	for _, f := range fl {
		fenc[f] = funcs[f]
	}
	if len(samples) == 0 {
		samples = append(samples, "no path with symbolic inputs was sampled")
	}
	cov := map[string]interface{}{
		"states":                        total.Paths,
		"transitions":                   total.Decisions,
		"traces_validated_against_impl": validated,
		"samples":                       samples,
		"jobs":                          reports,
		"functions_encoded":             fenc,
		"stubs_used":                    stubsUsed,
		"queries":                       map[string]int{"total": total.Queries, "sat": total.Sat, "unsat": total.Unsat, "unknown": total.Unknown},
		"solver_s":                      total.SolverTime.Seconds(),
		"solver":                        solverName(),
		"workers":                       workers,
		"outside_claim":                 c.Outside,
		"known_findings_reproduced":     out.known,
		"inconclusive":                  out.inconclusive,
		"explanation":                   "states = complete execution paths of the real functions explored symbolically; transitions = branch/concretisation decisions; every assert site is discharged by the solver on every path (unsat of the negation) within the stated bounds",
	}
	if c.Level == "translation_validation" {
		cov["programs"] = total.Paths
		cov["disagreements_checked"] = total.Asserts
		n := int64(0)
		for _, v := range total.Asserts {
			n += v
		}
		cov["disagreements_checked"] = n
	}
	ev["coverage"] = cov
	eb, _ := json.MarshalIndent(ev, "", " ")
	os.MkdirAll(filepath.Join(outRoot(), "evidence"), 0o755)
	if err := os.WriteFile(filepath.Join(outRoot(), "evidence", id+".json"), eb, 0o644); err != nil {
		fmt.Println("cannot write evidence:", err)
		return 2
	}
	for _, k := range out.known {
		fmt.Println(k)
	}
	for _, v := range out.violations {
		fmt.Println(v)
	}
	if len(out.violations) > 0 {
		return 1
	}
	if len(out.inconclusive) > 0 {
		for i, s := range out.inconclusive {
			if i < 10 {
				fmt.Println("INCONCLUSIVE:", s)
			}
		}
		return 2
	}
	fmt.Printf("[%s] %s: held on everything explored (%d paths, %d queries, %.1fs)\n", id, tier, total.Paths, total.Queries, time.Since(t0).Seconds())
	return 0
}

func solverName() string {
	if sv := os.Getenv("VERIF_SOLVER"); sv != "" {
		return sv + " (VERIF_SOLVER), one process per worker"
	}
	return "z3 4.8.12 (-in, push/pop), one process per worker"
}

// engineWhy says why a concrete engine run did not end as one clean path.
func engineWhy(st *Stats) string {
	if len(st.Viol) == 0 && st.Paths == 1 {
		return ""
	}
	s := fmt.Sprintf(" (paths=%d aborted=%d", st.Paths, st.Aborted)
	for i, v := range st.Viol {
		if i < 3 {
			s += " viol:" + v.ID + ":" + v.Msg
		}
	}
	for i, w := range st.Incon {
		if i < 3 {
			s += " incon:" + w
		}
	}
	return s + ")"
}

func nativeViolates(r replayResult) bool {
	if r.Status == "ASSERT" || strings.HasPrefix(r.Status, "PANIC") || strings.HasPrefix(r.Status, "HANG") || strings.HasPrefix(r.Status, "RACE") {
		return true
	}
	for _, o := range r.Out {
		if strings.HasPrefix(o, "VASSERT-FAIL") {
			return true
		}
	}
	return false
}

func compactInputs(in []InputRec) []string {
	var s []string
	for _, i := range in {
		s = append(s, i.Tag+"="+i.Val)
	}
	return s
}

func describeInputs(in []InputRec) string {
	s := strings.Join(compactInputs(in), " ")
	if len(s) > 300 {
		s = s[:300] + "..."
	}
	return s
}

func writeReplay(p, id string, j JobDef, c replayCase, kind string, r replayResult) {
	b, _ := json.MarshalIndent(map[string]interface{}{
		"property": id, "job": j.Name, "what": kind, "case": c, "native_status": r.Status, "native_output": r.Out,
		"pkg": j.Pkg, "dir": j.Dir, "harness": j.Harness, "entry": j.Entry,
	}, "", " ")
	os.WriteFile(p, b, 0o644)
}

// cmdReplay re-runs a recorded counterexample natively.
func cmdReplay(args []string) int {
	if len(args) < 1 {
		fmt.Println("usage: gosym replay <file>")
		return 2
	}
	raw, err := os.ReadFile(args[0])
	if err != nil {
		fmt.Println(err)
		return 2
	}
	var rec struct {
		Property string     `json:"property"`
		Job      string     `json:"job"`
		Case     replayCase `json:"case"`
	}
	if err := json.Unmarshal(raw, &rec); err != nil {
		fmt.Println(err)
		return 2
	}
	c := checks[rec.Property]
	if c == nil {
		fmt.Println("unknown property", rec.Property)
		return 2
	}
	for _, tier := range []string{"quick", "thorough"} {
		for _, j := range c.Jobs(tier) {
			if j.Name != rec.Job {
				continue
			}
			res, out, err := nativeRun(j, []replayCase{rec.Case})
			if err != nil {
				fmt.Println(err, out)
				return 2
			}
			fmt.Println("native status:", res[0].Status, res[0].Out)
			if nativeViolates(res[0]) {
				fmt.Printf("VIOLATION property=%s replay=%s\n", rec.Property, args[0])
				return 1
			}
			return 0
		}
	}
	fmt.Println("job not found:", rec.Job)
	return 2
}
