package main

import (
	"regexp"
	"fmt"
	"go/token"
	"go/types"
	"path/filepath"
	"strings"
	"unicode/utf8"

	"golang.org/x/tools/go/ssa"
)

// Environment stubs: Prometheus client constructors (recording, may fail),
// net/http plumbing, regexp matching driven by a harness table, path/filepath.

const promPkg = "github.com/prometheus/client_golang/prometheus"

type promDesc struct {
	name   value // string
	help   value
	labels []value
}

type promMetric struct {
	desc     *promDesc
	hist     bool
	vtype    Int
	val      Float
	labels   []value
	count    Int
	sum      Float
	buckets  *omap
	hasTS    bool
	ts       TimeV
}

func (m *promMetric) invoke(e *Exec, method string, args []value) value {
	panic(inconclusive{"method " + method + " on recorded prometheus.Metric"})
}

var promMetricType = types.NewNamed(types.NewTypeName(token.NoPos, nil, "verif.promMetric", nil), types.NewStruct(nil, nil), nil)

func promOf(v value) *promMetric {
	i, ok := v.(iface)
	if !ok || i.t == nil {
		panic(goPanic{"nil prometheus.Metric"})
	}
	return i.v.(*promMetric)
}

func (e *Exec) fault(tag string) bool {
	if e.sh.cfg.Params["nofault"] == 1 {
		return false // fault injection switched off for this job
	}
	tag = "fault." + tag
	var fired bool
	if s, ok := e.nextConcrete("bool"); ok {
		e.addInput(tag, "bool", nil, s == "true")
		fired = s == "true"
	} else {
		// an unconstrained fresh boolean: both outcomes are feasible, fork
		// without asking the solver
		fired = e.choose(2) == 1
		e.addInput(tag, "bool", nil, fired)
	}
	if fired {
		e.faultSeq++
	}
	return fired
}

type httpReqInfo struct{ ctx value }

// promRefuses models the refusals of client_golang v1.20 / common v0.60
// (legacy name validation) in NewDesc + NewConstMetric/NewConstHistogram:
// invalid metric name, invalid, reserved or duplicate label name, wrong
// number of label values, label value that is not valid UTF-8.  Names are
// concrete in every harness; label values may hold symbolic bytes (the UTF-8
// automaton forks on them).  It returns "" when the sample is accepted.
func (e *Exec) promRefuses(d *promDesc, lv []value) string {
	name, ok := concStr(d.name)
	if !ok {
		panic(inconclusive{"prometheus.NewDesc with a symbolic metric name"})
	}
	if !promLegacyName(name, true) {
		return "refused: invalid metric name"
	}
	seen := map[string]bool{}
	for _, l := range d.labels {
		ln, ok := concStr(l)
		if !ok {
			panic(inconclusive{"prometheus.NewDesc with a symbolic label name"})
		}
		if !promLegacyName(ln, false) || strings.HasPrefix(ln, "__") {
			return "refused: invalid label name"
		}
		if seen[ln] {
			return "refused: duplicate label names"
		}
		seen[ln] = true
	}
	if len(lv) != len(d.labels) {
		return "refused: inconsistent label cardinality"
	}
	for _, v := range lv {
		if !e.utf8Valid(strBytes(v)) {
			return "refused: label value is not valid UTF-8"
		}
	}
	return ""
}

// promLegacyName: [a-zA-Z_:][a-zA-Z0-9_:]* for metric names, without the
// colon for label names (model.IsValidLegacyMetricName / LabelName.IsValid).
func promLegacyName(s string, colon bool) bool {
	if s == "" {
		return false
	}
	for i := 0; i < len(s); i++ {
		b := s[i]
		switch {
		case b >= 'a' && b <= 'z', b >= 'A' && b <= 'Z', b == '_', b == ':' && colon:
		case b >= '0' && b <= '9' && i > 0:
		default:
			return false
		}
	}
	return true
}

// byteIn is the condition lo <= b <= hi on a possibly symbolic byte.
func byteIn(b Int, lo, hi byte) Bool {
	if b.X != nil {
		panic(inconclusive{"UTF-8 validity of a formatted (opaque) string piece"})
	}
	if b.isConc() {
		return Bool{C: byte(b.C) >= lo && byte(b.C) <= hi}
	}
	b.S = false // bytes compare unsigned
	ge := intBinop(token.GEQ, b, mkByte(lo)).(Bool)
	le := intBinop(token.LEQ, b, mkByte(hi)).(Bool)
	return band(ge, le)
}

// utf8Valid is unicode/utf8.ValidString over possibly symbolic bytes: the
// well-formed byte sequences of the Unicode standard (table 3-7) as one
// condition over the bytes (valid[i]: the suffix from i is well formed),
// decided with a single fork.
func (e *Exec) utf8Valid(bs []Int) bool {
	if allConc(bs) && !hasOpaque(bs) {
		raw := make([]byte, len(bs))
		for i, b := range bs {
			raw[i] = byte(b.C)
		}
		return utf8.Valid(raw)
	}
	if len(bs) > 6 {
		panic(inconclusive{"UTF-8 validity of a symbolic string longer than 6 bytes"})
	}
	n := len(bs)
	valid := make([]Bool, n+1)
	valid[n] = Bool{C: true}
	cont := func(k int) Bool { return byteIn(bs[k], 0x80, 0xBF) }
	for i := n - 1; i >= 0; i-- {
		b := bs[i]
		v := band(byteIn(b, 0x00, 0x7F), valid[i+1])
		if i+1 < n {
			v = bor(v, band(band(byteIn(b, 0xC2, 0xDF), cont(i+1)), valid[i+2]))
		}
		if i+2 < n {
			second := bor(bor(
				band(byteIn(b, 0xE0, 0xE0), byteIn(bs[i+1], 0xA0, 0xBF)),
				band(byteIn(b, 0xED, 0xED), byteIn(bs[i+1], 0x80, 0x9F))),
				band(bor(byteIn(b, 0xE1, 0xEC), byteIn(b, 0xEE, 0xEF)), cont(i+1)))
			v = bor(v, band(band(second, cont(i+2)), valid[i+3]))
		}
		if i+3 < n {
			second := bor(bor(
				band(byteIn(b, 0xF0, 0xF0), byteIn(bs[i+1], 0x90, 0xBF)),
				band(byteIn(b, 0xF4, 0xF4), byteIn(bs[i+1], 0x80, 0x8F))),
				band(byteIn(b, 0xF1, 0xF3), cont(i+1)))
			v = bor(v, band(band(band(second, cont(i+2)), cont(i+3)), valid[i+4]))
		}
		valid[i] = v
	}
	return e.decide(valid[0])
}

type matchEntry struct {
	subject value
	result  value
}

// exportPoint gives the harness a turn at every constructor call of an
// export (a point at which concurrent line processing may arrive).
func (e *Exec) exportPoint() {
	if h := e.sh.entry.Pkg.Func("c12WriterPoint"); h != nil {
		e.call(h, nil)
	}
}

// decodeRune is unicode/utf8.DecodeRuneInString on possibly symbolic bytes
// (what a range loop over a string does at each step): the first rune and its
// width, forking over the well-formed sequence shapes; anything else is
// (RuneError, 1).
func (e *Exec) decodeRune(bs []Int) (Int, int) {
	n := len(bs)
	w32 := func(b Int) Int {
		b.S = false
		return e.conv(types.Typ[types.Int32], types.Typ[types.Uint8], b).(Int)
	}
	bits := func(b Int, mask uint64, sh uint64) Int {
		x := intBinop(token.AND, w32(b), mkInt(32, true, mask)).(Int)
		if sh == 0 {
			return x
		}
		return intBinop(token.SHL, x, mkInt(32, true, sh)).(Int)
	}
	or := func(a, b Int) Int { return intBinop(token.OR, a, b).(Int) }
	cont := func(k int) Bool { return byteIn(bs[k], 0x80, 0xBF) }
	b0 := bs[0]
	if e.decide(byteIn(b0, 0x00, 0x7F)) {
		return w32(b0), 1
	}
	if n >= 2 && e.decide(band(byteIn(b0, 0xC2, 0xDF), cont(1))) {
		return or(bits(b0, 0x1F, 6), bits(bs[1], 0x3F, 0)), 2
	}
	if n >= 3 {
		second := bor(bor(
			band(byteIn(b0, 0xE0, 0xE0), byteIn(bs[1], 0xA0, 0xBF)),
			band(byteIn(b0, 0xED, 0xED), byteIn(bs[1], 0x80, 0x9F))),
			band(bor(byteIn(b0, 0xE1, 0xEC), byteIn(b0, 0xEE, 0xEF)), cont(1)))
		if e.decide(band(second, cont(2))) {
			return or(or(bits(b0, 0x0F, 12), bits(bs[1], 0x3F, 6)), bits(bs[2], 0x3F, 0)), 3
		}
	}
	if n >= 4 {
		second := bor(bor(
			band(byteIn(b0, 0xF0, 0xF0), byteIn(bs[1], 0x90, 0xBF)),
			band(byteIn(b0, 0xF4, 0xF4), byteIn(bs[1], 0x80, 0x8F))),
			band(byteIn(b0, 0xF1, 0xF3), cont(1)))
		if e.decide(band(band(second, cont(2)), cont(3))) {
			return or(or(or(bits(b0, 0x07, 18), bits(bs[1], 0x3F, 12)), bits(bs[2], 0x3F, 6)), bits(bs[3], 0x3F, 0)), 4
		}
	}
	return mkInt(32, true, 0xFFFD), 1
}

// yieldPoint gives the harness a turn right after the main goroutine released
// a metric's lock (a point at which another goroutine's operation on the same
// metric may run): the harness function verifYieldPoint, if the job has one.
func (e *Exec) yieldPoint(mu value) {
	if e.cur.id != 0 {
		return
	}
	name := e.race.names[mutexPtr(mu)]
	if h := e.sh.entry.Pkg.Func("verifYieldPoint"); h != nil && strings.HasSuffix(name, "Metric.RWMutex") {
		e.call(h, nil)
		return
	}
	// verifYieldAny: the locks of the runtime and the store (by field name,
	// which is also how the native rewrite finds the call sites)
	if h := e.sh.entry.Pkg.Func("verifYieldAny"); h != nil {
		for _, suf := range yieldAnyLocks {
			if strings.HasSuffix(name, suf) {
				e.call(h, nil)
				return
			}
		}
	}
}

var yieldAnyLocks = []string{".handleMu", ".programErrorMu", ".insertMu", ".searchMu"}

func init() {
	// a line is about to be processed by a VM goroutine: the harness may
	// delay that goroutine here (verifPreemptPoint, if the job has one)
	stubs["(*github.com/google/mtail/internal/runtime/vm.VM).ProcessLogLine"] = func(e *Exec, fn *ssa.Function, args []value) value {
		if h := e.sh.entry.Pkg.Func("verifPreemptPoint"); h != nil && e.cur.id != 0 {
			e.call(h, nil)
		}
		return e.callBody(fn, args)
	}
	dec := func(e *Exec, fn *ssa.Function, args []value) value {
		var bs []Int
		switch x := args[0].(type) {
		case string, SStr:
			bs = strBytes(x)
		default:
			panic(inconclusive{"utf8.DecodeRuneInString on a non-string value"})
		}
		if len(bs) == 0 {
			return tuple{mkInt(32, true, 0xFFFD), mkI64(0)}
		}
		if allConc(bs) && !hasOpaque(bs) {
			raw := make([]byte, len(bs))
			for i, b := range bs {
				raw[i] = byte(b.C)
			}
			r, sz := utf8.DecodeRune(raw)
			return tuple{mkInt(32, true, uint64(r)), mkI64(int64(sz))}
		}
		r, sz := e.decodeRune(bs)
		return tuple{r, mkI64(int64(sz))}
	}
	stubs["unicode/utf8.DecodeRuneInString"] = dec
	sliceBytes := func(v value) []Int {
		sl, _ := v.([]value)
		out := make([]Int, len(sl))
		for i, x := range sl {
			out[i] = x.(Int)
		}
		return out
	}
	stubs["unicode/utf8.DecodeRune"] = func(e *Exec, fn *ssa.Function, args []value) value {
		return dec(e, fn, []value{mkStr(sliceBytes(args[0]))})
	}
	full := func(e *Exec, bs []Int) bool {
		n := len(bs)
		if n == 0 {
			return false
		}
		if allConc(bs) && !hasOpaque(bs) {
			raw := make([]byte, n)
			for i, b := range bs {
				raw[i] = byte(b.C)
			}
			return utf8.FullRune(raw)
		}
		b0 := bs[0]
		need := 0
		switch {
		case e.decide(byteIn(b0, 0x00, 0x7F)):
			return true
		case e.decide(byteIn(b0, 0xC2, 0xDF)):
			need = 2
		case e.decide(byteIn(b0, 0xE0, 0xEF)):
			need = 3
		case e.decide(byteIn(b0, 0xF0, 0xF4)):
			need = 4
		default:
			return true // an invalid first byte is a full (error) rune
		}
		if n >= need {
			return true
		}
		// fewer bytes than the encoding needs: full only if what is there is
		// already invalid
		lo, hi := byte(0x80), byte(0xBF)
		switch {
		case e.decide(byteIn(b0, 0xE0, 0xE0)):
			lo = 0xA0
		case e.decide(byteIn(b0, 0xED, 0xED)):
			hi = 0x9F
		case e.decide(byteIn(b0, 0xF0, 0xF0)):
			lo = 0x90
		case e.decide(byteIn(b0, 0xF4, 0xF4)):
			hi = 0x8F
		}
		if n > 1 && !e.decide(byteIn(bs[1], lo, hi)) {
			return true
		}
		if n > 2 && !e.decide(byteIn(bs[2], 0x80, 0xBF)) {
			return true
		}
		return false
	}
	stubs["unicode/utf8.FullRune"] = func(e *Exec, fn *ssa.Function, args []value) value {
		return Bool{C: full(e, sliceBytes(args[0]))}
	}
	stubs["unicode/utf8.FullRuneInString"] = func(e *Exec, fn *ssa.Function, args []value) value {
		return Bool{C: full(e, strBytes(args[0]))}
	}
	stubs["unicode/utf8.ValidString"] = func(e *Exec, fn *ssa.Function, args []value) value {
		return Bool{C: e.utf8Valid(strBytes(args[0]))}
	}
	stubs[promPkg+".NewDesc"] = func(e *Exec, fn *ssa.Function, args []value) value {
		ls, _ := args[2].([]value)
		d := &promDesc{name: args[0], help: args[1], labels: append([]value{}, ls...)}
		p := new(value)
		*p = d
		return p
	}
	stubs[promPkg+".NewConstMetric"] = func(e *Exec, fn *ssa.Function, args []value) value {
		d := (*args[0].(*value)).(*promDesc)
		lv, _ := args[3].([]value)
		// the client library refuses unrepresentable names/labels: the
		// refusals of client_golang (promRefuses) are modelled, and on top
		// of them any call may be refused at the solver's choice
		e.exportPoint()
		if e.fault("NewConstMetric") {
			return tuple{iface{}, e.newError("injected: prometheus refused the sample", nil)}
		}
		if why := e.promRefuses(d, lv); why != "" {
			e.faultSeq++
			return tuple{iface{}, e.newError(why, nil)}
		}
		m := &promMetric{desc: d, vtype: args[1].(Int), val: args[2].(Float), labels: append([]value{}, lv...)}
		return tuple{iface{t: promMetricType, v: m}, iface{}}
	}
	stubs[promPkg+".NewConstHistogram"] = func(e *Exec, fn *ssa.Function, args []value) value {
		d := (*args[0].(*value)).(*promDesc)
		lv, _ := args[4].([]value)
		e.exportPoint()
		if e.fault("NewConstMetric") {
			return tuple{iface{}, e.newError("injected: prometheus refused the sample", nil)}
		}
		if why := e.promRefuses(d, lv); why != "" {
			e.faultSeq++
			return tuple{iface{}, e.newError(why, nil)}
		}
		bm, _ := args[3].(*omap)
		m := &promMetric{desc: d, hist: true, count: args[1].(Int), sum: args[2].(Float), buckets: bm, labels: append([]value{}, lv...)}
		return tuple{iface{t: promMetricType, v: m}, iface{}}
	}
	stubs[promPkg+".NewMetricWithTimestamp"] = func(e *Exec, fn *ssa.Function, args []value) value {
		m := *promOf(args[1])
		m.hasTS = true
		m.ts = args[0].(TimeV)
		return iface{t: promMetricType, v: &m}
	}
	zeroRes := func(e *Exec, fn *ssa.Function, args []value) value {
		res := fn.Signature.Results()
		if res.Len() == 0 {
			return nil
		}
		return zero(res)
	}
	for _, n := range []string{".NewHistogramVec", ".ExponentialBuckets", ".MustRegister", ".NewCounterVec", ".NewGaugeVec", ".DescribeByCollect"} {
		stubs[promPkg+n] = zeroRes
	}
	stubs["(*"+promPkg+".HistogramVec).WithLabelValues"] = func(e *Exec, fn *ssa.Function, args []value) value {
		return iface{t: promMetricType, v: &nopObserver{}}
	}

	// net/http plumbing
	stubs["(net/http.Header).Add"] = zeroRes
	stubs["(net/http.Header).Set"] = zeroRes
	stubs["net/http.Error"] = func(e *Exec, fn *ssa.Function, args []value) value {
		e.recorded = append(e.recorded, recordedCall{name: "http.Error", args: args})
		// as net/http does: set headers, WriteHeader(code), Fprintln(w, msg)
		w := args[0].(iface)
		if m := e.lookupMethod(w, "WriteHeader"); m != nil {
			e.call(m, []value{w.v, args[2]})
		}
		stubs["fmt.Fprintln"](e, fn, []value{w, []value{iface{t: types.Typ[types.String], v: args[1]}}})
		return nil
	}
	stubs["(*net/http.Request).WithContext"] = func(e *Exec, fn *ssa.Function, args []value) value {
		p := new(value)
		*p = copyVal(*args[0].(*value))
		e.reqCtx[p] = args[1]
		return p
	}
	stubs["(*net/http.Request).Context"] = func(e *Exec, fn *ssa.Function, args []value) value {
		if c, ok := e.reqCtx[args[0].(*value)]; ok {
			return c
		}
		return stubs["context.Background"](e, fn, nil)
	}

	// regexp: match outcomes come from the harness table (vSetMatch)
	stubs["(*regexp.Regexp).FindStringSubmatch"] = func(e *Exec, fn *ssa.Function, args []value) value {
		re := args[0].(*value)
		// outcomes given per subject string (vSetMatchOn) come first: a
		// regexp applied to different strings may match one and not the other
		for _, en := range e.matchOn[re] {
			if e.decide(bytesEq(strBytes(en.subject), strBytes(args[1]))) {
				if en.result == nil {
					return []value(nil)
				}
				return en.result
			}
		}
		if r, ok := e.matchTable[re]; ok {
			if r == nil {
				return []value(nil)
			}
			return r
		}
		// a concrete pattern on a concrete subject: the real matcher decides
		if pat, ok := (*re).(string); ok && strings.HasPrefix(pat, "regexp:") {
			if subj, ok := concStr(args[1]); ok {
				if rx, err := regexp.Compile(strings.TrimPrefix(pat, "regexp:")); err == nil {
					m := rx.FindStringSubmatch(subj)
					if m == nil {
						return []value(nil)
					}
					out := make([]value, len(m))
					for i := range m {
						out[i] = m[i]
					}
					return out
				}
			}
		}
		panic(inconclusive{"regexp match without a harness-provided outcome"})
	}
	stubs["(*regexp.Regexp).String"] = func(e *Exec, fn *ssa.Function, args []value) value {
		if p, ok := args[0].(*value); ok && p != nil {
			if s, ok := (*p).(string); ok && strings.HasPrefix(s, "regexp:") {
				return strings.TrimPrefix(s, "regexp:")
			}
		}
		return "<regexp>"
	}
	stubs["regexp.MustCompile"] = func(e *Exec, fn *ssa.Function, args []value) value {
		p := new(value)
		*p = "regexp:" + e.concretizeStr(args[0])
		return p
	}

	// path/filepath on concrete strings; Base/Ext symbolically byte-wise
	stubs["path/filepath.Base"] = func(e *Exec, fn *ssa.Function, args []value) value {
		if s, ok := concStr(args[0]); ok {
			return filepath.Base(s)
		}
		bs := strBytes(args[0])
		// strip trailing slashes
		for len(bs) > 0 && e.cmpByte(bs[len(bs)-1], mkByte('/')) {
			bs = bs[:len(bs)-1]
		}
		if len(bs) == 0 {
			if len(strBytes(args[0])) == 0 {
				return "."
			}
			return "/"
		}
		i := e.symLastIndex(bs, []Int{mkByte('/')})
		return mkStr(append([]Int{}, bs[i+1:]...))
	}
	stubs["path/filepath.Ext"] = func(e *Exec, fn *ssa.Function, args []value) value {
		if s, ok := concStr(args[0]); ok {
			return filepath.Ext(s)
		}
		bs := strBytes(args[0])
		for i := len(bs) - 1; i >= 0; i-- {
			if e.cmpByte(bs[i], mkByte('/')) {
				break
			}
			if e.cmpByte(bs[i], mkByte('.')) {
				return mkStr(append([]Int{}, bs[i:]...))
			}
		}
		return ""
	}
	stubs["path/filepath.Clean"] = func(e *Exec, fn *ssa.Function, args []value) value {
		if s, ok := concStr(args[0]); ok {
			return filepath.Clean(s)
		}
		return args[0] // harness names contain no ., .. or // segments (stated)
	}
	stubs["path/filepath.Join"] = func(e *Exec, fn *ssa.Function, args []value) value {
		el, _ := args[0].([]value)
		var out []Int
		for _, s := range el {
			bs := strBytes(s)
			if len(bs) == 0 {
				continue
			}
			if len(out) > 0 {
				out = append(out, mkByte('/'))
			}
			out = append(out, bs...)
		}
		if r, ok := mkStr(out).(string); ok {
			return filepath.Clean(r)
		}
		return mkStr(out)
	}
}

type nopObserver struct{}

func (*nopObserver) invoke(e *Exec, method string, args []value) value { return nil }

// prometheus accessors used by harnesses (bodyless declarations there)
func (e *Exec) promIntrinsic(name string, args []value) (value, bool) {
	switch name {
	case "vPromName":
		return promOf(args[0]).desc.name, true
	case "vPromHelp":
		return promOf(args[0]).desc.help, true
	case "vPromLabelNames":
		return append([]value{}, promOf(args[0]).desc.labels...), true
	case "vPromLabelValues":
		return append([]value{}, promOf(args[0]).labels...), true
	case "vPromValue":
		return promOf(args[0]).val, true
	case "vPromKind":
		m := promOf(args[0])
		if m.hist {
			return mkI64(4), true
		}
		return Int{W: 64, S: true, C: m.vtype.C, T: m.vtype.T}, true
	case "vPromHasTS":
		return Bool{C: promOf(args[0]).hasTS}, true
	case "vPromTSNano":
		return promOf(args[0]).ts.unixNano(), true
	case "vPromHistCount":
		return promOf(args[0]).count, true
	case "vPromHistSum":
		return promOf(args[0]).sum, true
	case "vPromHistBucket":
		m := promOf(args[0])
		v, ok := e.mapGet(m.buckets, args[1])
		if !ok {
			return tuple{Int{W: 64}, Bool{C: false}}, true
		}
		return tuple{v, Bool{C: true}}, true
	case "vPromHistBuckets":
		m := promOf(args[0])
		if m.buckets == nil {
			return mkI64(0), true
		}
		return mkI64(int64(len(m.buckets.e))), true
	case "vHTTPErrors":
		n := 0
		for _, r := range e.recorded {
			if r.name == "http.Error" {
				n++
			}
		}
		return mkI64(int64(n)), true
	}
	return nil, false
}

var _ = fmt.Sprint
