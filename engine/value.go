package main

import (
	"fmt"
	"go/types"
	"math"
	"strings"

	"golang.org/x/tools/go/ssa"
)

// value is any interpreter value.  The heap is concrete (pointers, slices,
// maps, interfaces, closures, channels have concrete structure); scalars
// (Int, Bool, Float, string bytes) may carry SMT terms.
type value interface{}

// Term is an SMT-LIB2 term in text form.
type Term struct {
	S string
}

// Int is any Go integer value: concrete (T==nil) or symbolic.
type Int struct {
	W uint8 // bits
	S bool  // signed
	C uint64
	T *Term
	// FB, when non-nil, marks this uint64 as the result of
	// math.Float64bits(FB) for a symbolic float; only Float64frombits and
	// equality are supported on it.
	FB *Float
	// X, when non-nil, makes this "byte" an opaque variable-length chunk
	// inside a string (a formatted number, or an unknown formatted text).
	X *Opaque
	// Ref, when non-nil, makes this byte of a string a view of a memory cell
	// (unsafe.String over a byte slice): it is read when the string is used.
	Ref *value
}

// deref resolves a view byte to the cell's current content.
func (x Int) deref() Int {
	for x.Ref != nil {
		v, ok := (*x.Ref).(Int)
		if !ok {
			panic(inconclusive{"string view of a cell that does not hold a byte"})
		}
		x = v
	}
	return x
}

// Opaque is a string piece of unknown length: the textual rendering of a
// symbolic number.  Two opaque pieces of the same Kind are equal iff their
// arguments are (injectivity of strconv's shortest formatting; NaN handled
// by the caller).
type Opaque struct {
	Kind string // "d" signed decimal, "u" unsigned decimal, "g"/"G"/"v" float, "unk" unknown text
	I    Int    // for d/u
	F    Float  // for g/G/v
	ID   int    // for unk
	Str  []Int  // for q: the quoted string's bytes (quoting is injective)
}

// Bool is a Go bool, concrete or symbolic.
type Bool struct {
	C bool
	T *Term
}

// Float is a float64 (float32 is not supported symbolically).
type Float struct {
	C float64
	T *Term
}

// SStr is a string of pieces: bytes (possibly symbolic) and opaque chunks.
type SStr struct{ B []Int }

// TimeV models time.Time: seconds since the Unix epoch and nanoseconds in
// [0,1e9), or (when NS is set) an exact int64 count of nanoseconds since
// the epoch from which Sec/Nsec are derived lazily.
type TimeV struct {
	Sec, Nsec Int
	NS        *Int // if non-nil: the instant is exactly NS nanoseconds since the epoch (int64)
	Loc       value
}

type structure []value
type array []value
type tuple []value
type iface struct {
	t types.Type
	v value
}
type closure struct {
	fn  *ssa.Function
	env []value
	// native, when set, is called instead of fn.
	native func(e *Exec, args []value) value
	name   string
}
type channel struct {
	buf        []value
	cap        int
	closed     bool
	pending    value
	hasPending bool
	ticket     int
	id         int
}
type omapEntry struct{ k, v value }
type omap struct{ e []omapEntry }

// native objects implement methods in the engine.
type nativeObj interface {
	invoke(e *Exec, method string, args []value) value
}

func (x Int) String() string {
	if x.X != nil {
		return "<opaque " + x.X.Kind + ">"
	}
	if x.T != nil {
		return x.T.S
	}
	if x.S {
		return fmt.Sprint(x.signed())
	}
	return fmt.Sprint(x.C)
}

func (x Int) signed() int64 {
	sh := 64 - uint(x.W)
	return int64(x.C<<sh) >> sh
}

func (x Int) isConc() bool { return x.T == nil && x.FB == nil && x.X == nil && x.Ref == nil }

func mkInt(w uint8, s bool, c uint64) Int {
	if w < 64 {
		c &= (1 << w) - 1
	}
	return Int{W: w, S: s, C: c}
}

func mkI64(i int64) Int { return mkInt(64, true, uint64(i)) }
func mkByte(b byte) Int { return Int{W: 8, C: uint64(b)} }

func intOfType(t types.Type) (w uint8, s bool, ok bool) {
	b, isB := t.Underlying().(*types.Basic)
	if !isB {
		return 0, false, false
	}
	switch b.Kind() {
	case types.Int, types.Int64, types.UntypedInt:
		return 64, true, true
	case types.Int32, types.UntypedRune:
		return 32, true, true
	case types.Int16:
		return 16, true, true
	case types.Int8:
		return 8, true, true
	case types.Uint, types.Uint64, types.Uintptr:
		return 64, false, true
	case types.Uint32:
		return 32, false, true
	case types.Uint16:
		return 16, false, true
	case types.Uint8:
		return 8, false, true
	}
	return 0, false, false
}

func bvLit(c uint64, w uint8) string {
	if w < 64 {
		c &= (1 << w) - 1
	}
	return fmt.Sprintf("(_ bv%d %d)", c, w)
}

func (x Int) term() *Term {
	if x.Ref != nil {
		return x.deref().term()
	}
	if x.X != nil {
		panic(inconclusive{"byte-level use of an opaque formatted string piece"})
	}
	if x.FB != nil {
		panic(inconclusive{"arithmetic on math.Float64bits of a symbolic float"})
	}
	if x.T != nil {
		return x.T
	}
	return &Term{S: bvLit(x.C, x.W)}
}

func (b Bool) term() *Term {
	if b.T != nil {
		return b.T
	}
	if b.C {
		return &Term{S: "true"}
	}
	return &Term{S: "false"}
}

func fpLit(f float64) string {
	b := math.Float64bits(f)
	return fmt.Sprintf("(fp #b%01b #b%011b #b%052b)", b>>63, (b>>52)&0x7ff, b&((1<<52)-1))
}

func (f Float) term() *Term {
	if f.T != nil {
		return f.T
	}
	return &Term{S: fpLit(f.C)}
}

func tnot(t *Term) *Term {
	switch {
	case t.S == "true":
		return &Term{S: "false"}
	case t.S == "false":
		return &Term{S: "true"}
	case strings.HasPrefix(t.S, "(not ") && balancedTail(t.S[5:len(t.S)-1]):
		return &Term{S: t.S[5 : len(t.S)-1]}
	}
	return &Term{S: "(not " + t.S + ")"}
}

// balancedTail reports whether s is a single balanced s-expression or atom.
func balancedTail(s string) bool {
	depth := 0
	inBar := false
	for i := 0; i < len(s); i++ {
		c := s[i]
		if c == '|' {
			inBar = !inBar
			continue
		}
		if inBar {
			continue
		}
		switch c {
		case '(':
			depth++
		case ')':
			depth--
			if depth < 0 {
				return false
			}
			if depth == 0 && i != len(s)-1 {
				return false
			}
		case ' ':
			if depth == 0 {
				return false
			}
		}
	}
	return depth == 0
}

func tand(ts ...*Term) *Term {
	var keep []*Term
	for _, t := range ts {
		if t.S == "true" {
			continue
		}
		if t.S == "false" {
			return t
		}
		keep = append(keep, t)
	}
	if len(keep) == 0 {
		return &Term{S: "true"}
	}
	if len(keep) == 1 {
		return keep[0]
	}
	var b strings.Builder
	b.WriteString("(and")
	for _, t := range keep {
		b.WriteByte(' ')
		b.WriteString(t.S)
	}
	b.WriteByte(')')
	return &Term{S: b.String()}
}

func tor(ts ...*Term) *Term {
	var keep []*Term
	for _, t := range ts {
		if t.S == "false" {
			continue
		}
		if t.S == "true" {
			return t
		}
		keep = append(keep, t)
	}
	if len(keep) == 0 {
		return &Term{S: "false"}
	}
	if len(keep) == 1 {
		return keep[0]
	}
	var b strings.Builder
	b.WriteString("(or")
	for _, t := range keep {
		b.WriteByte(' ')
		b.WriteString(t.S)
	}
	b.WriteByte(')')
	return &Term{S: b.String()}
}

func mkBoolT(t *Term) Bool {
	switch t.S {
	case "true":
		return Bool{C: true}
	case "false":
		return Bool{C: false}
	}
	return Bool{T: t}
}

func bnot(b Bool) Bool {
	if b.T == nil {
		return Bool{C: !b.C}
	}
	return mkBoolT(tnot(b.T))
}

func band(a, b Bool) Bool {
	if a.T == nil {
		if !a.C {
			return a
		}
		return b
	}
	if b.T == nil {
		if !b.C {
			return b
		}
		return a
	}
	return mkBoolT(tand(a.T, b.T))
}

func bor(a, b Bool) Bool {
	if a.T == nil {
		if a.C {
			return a
		}
		return b
	}
	if b.T == nil {
		if b.C {
			return b
		}
		return a
	}
	return mkBoolT(tor(a.T, b.T))
}

func isNamed(t types.Type, pkg, name string) bool {
	n, ok := t.(*types.Named)
	if !ok {
		return false
	}
	o := n.Obj()
	return o.Name() == name && o.Pkg() != nil && o.Pkg().Path() == pkg
}

var zeroTimeV = TimeV{Sec: mkI64(-62135596800), Nsec: mkI64(0)}

func zero(t types.Type) value {
	if isNamed(t, "time", "Time") {
		return zeroTimeV
	}
	switch t := t.Underlying().(type) {
	case *types.Basic:
		if w, s, ok := intOfType(t); ok {
			return Int{W: w, S: s}
		}
		switch t.Kind() {
		case types.Bool, types.UntypedBool:
			return Bool{}
		case types.String, types.UntypedString:
			return ""
		case types.Float64, types.Float32, types.UntypedFloat:
			return Float{}
		case types.UnsafePointer:
			return (*value)(nil)
		case types.UntypedNil:
			return nil
		}
		panic(inconclusive{fmt.Sprintf("zero: unsupported basic %v", t)})
	case *types.Pointer:
		return (*value)(nil)
	case *types.Struct:
		s := make(structure, t.NumFields())
		for i := range s {
			s[i] = zero(t.Field(i).Type())
		}
		return s
	case *types.Array:
		a := make(array, t.Len())
		for i := range a {
			a[i] = zero(t.Elem())
		}
		return a
	case *types.Slice:
		return []value(nil)
	case *types.Interface:
		return iface{}
	case *types.Chan:
		return (*channel)(nil)
	case *types.Map:
		return (*omap)(nil)
	case *types.Signature:
		return (*closure)(nil)
	case *types.Tuple:
		if t.Len() == 1 {
			return zero(t.At(0).Type())
		}
		s := make(tuple, t.Len())
		for i := range s {
			s[i] = zero(t.At(i).Type())
		}
		return s
	}
	panic(inconclusive{fmt.Sprintf("zero: unsupported type %T %v", t, t)})
}

// copyVal copies value-typed aggregates (struct, array); everything else is
// a reference or immutable.
func copyVal(v value) value {
	switch v := v.(type) {
	case structure:
		c := make(structure, len(v))
		for i := range v {
			c[i] = copyVal(v[i])
		}
		return c
	case array:
		c := make(array, len(v))
		for i := range v {
			c[i] = copyVal(v[i])
		}
		return c
	}
	return v
}

// storeInto writes v into *p.  Aggregates are copied element-wise in place
// so that pointers to fields of the destination stay valid.
func storeInto(p *value, v value) {
	switch src := v.(type) {
	case structure:
		if dst, ok := (*p).(structure); ok && len(dst) == len(src) {
			for i := range src {
				storeInto(&dst[i], src[i])
			}
			return
		}
	case array:
		if dst, ok := (*p).(array); ok && len(dst) == len(src) {
			for i := range src {
				storeInto(&dst[i], src[i])
			}
			return
		}
	}
	*p = copyVal(v)
}
