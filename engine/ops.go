package main

import (
	"fmt"
	"go/token"
	"go/types"
	"strings"
)

func hasOpaque(b []Int) bool {
	for _, x := range b {
		if x.X != nil {
			return true
		}
	}
	return false
}

func strBytes(v value) []Int {
	switch v := v.(type) {
	case string:
		b := make([]Int, len(v))
		for i := range b {
			b[i] = mkByte(v[i])
		}
		return b
	case SStr:
		for _, x := range v.B {
			if x.Ref != nil {
				// a view of memory: its bytes are what the cells hold now
				b := make([]Int, len(v.B))
				for i, y := range v.B {
					b[i] = y.deref()
				}
				return b
			}
		}
		return v.B
	}
	panic(inconclusive{fmt.Sprintf("strBytes: %T", v)})
}

func mkStr(b []Int) value {
	for _, x := range b {
		if !x.isConc() {
			return SStr{B: b}
		}
	}
	s := make([]byte, len(b))
	for i, x := range b {
		s[i] = byte(x.C)
	}
	return string(s)
}

func eqInt(a, b Int) Bool {
	if a.FB != nil || b.FB != nil {
		if a.FB != nil && b.FB != nil {
			// bit equality of two float encodings
			return Bool{T: &Term{S: "(= " + a.FB.term().S + " " + b.FB.term().S + ")"}}
		}
		panic(inconclusive{"comparison of Float64bits with integer"})
	}
	if a.isConc() && b.isConc() {
		return Bool{C: a.C == b.C}
	}
	as, bs := a.term().S, b.term().S
	if as == bs {
		return Bool{C: true}
	}
	return Bool{T: &Term{S: "(= " + as + " " + bs + ")"}}
}

// decimalVsFloat: is the decimal text of the int64 the %g / %v text of the
// float?  Below 1e21 shortest float formatting prints an integral value
// without exponent or fraction, so the texts agree exactly when the float is
// integral, is not -0 and has the integer's value.
func decimalVsFloat(d, f *Opaque) Bool {
	if d.I.W != 64 || !d.I.S {
		panic(inconclusive{"comparison of a formatted unsigned/narrow integer with a formatted float"})
	}
	x, i := f.F.term().S, d.I.term().S
	lim := fpLit(9223372036854775808.0)
	return mkBoolT(&Term{S: fmt.Sprintf("(and (not (fp.isNaN %s)) (not (fp.isInfinite %s)) (fp.eq %s (fp.roundToIntegral RTZ %s)) (fp.lt (fp.abs %s) %s) (not (and (fp.isZero %s) (fp.isNegative %s))) (= ((_ fp.to_sbv 64) RTZ %s) %s))", x, x, x, x, x, lim, x, x, x, i)})
}

func unkID(a []Int) int {
	for _, x := range a {
		if x.X != nil && x.X.Kind == "unk" {
			return x.X.ID
		}
	}
	return 0
}

func opaqueEq(a, b *Opaque) Bool {
	isF := func(k string) bool { return k == "g" || k == "v" }
	if a.Kind == "d" && isF(b.Kind) {
		return decimalVsFloat(a, b)
	}
	if b.Kind == "d" && isF(a.Kind) {
		return decimalVsFloat(b, a)
	}
	if a.Kind != b.Kind {
		panic(inconclusive{"comparison of differently formatted opaque string pieces"})
	}
	switch a.Kind {
	case "q":
		return bytesEq(a.Str, b.Str)
	case "d", "u":
		if a.I.W != b.I.W {
			panic(inconclusive{"opaque int pieces of different width"})
		}
		return eqInt(a.I, b.I)
	case "unk":
		if a.ID == b.ID {
			return Bool{C: true}
		}
		panic(inconclusive{"comparison of unknown formatted text"})
	default:
		// shortest float formatting is injective on non-NaN values up to
		// the sign of zero ("0" vs "-0" differ), all NaNs print "NaN".
		x, y := a.F.term().S, b.F.term().S
		return Bool{T: &Term{S: fmt.Sprintf("(or (= %s %s) (and (fp.isNaN %s) (fp.isNaN %s)))", x, y, x, y)}}
	}
}

// decimalEq: does the decimal rendering of the integer (strconv/%d: no
// leading zeros, '-' for negatives) equal the given bytes?
func decimalEq(o *Opaque, b []Int) Bool {
	k := len(b)
	if k > 8 {
		panic(inconclusive{"comparison of a formatted integer with more than 8 bytes"})
	}
	w := o.I.W
	it := o.I.term().S
	isDigit := func(j int) string {
		t := b[j].term().S
		return "(and (bvuge " + t + " #x30) (bvule " + t + " #x39))"
	}
	val := func(from int) string {
		parts := []string{bvLit(0, w)}
		mul := uint64(1)
		for j := k - 1; j >= from; j-- {
			parts = append(parts, fmt.Sprintf("(bvmul ((_ zero_extend %d) (bvsub %s #x30)) %s)", int(w)-8, b[j].term().S, bvLit(mul, w)))
			mul *= 10
		}
		return "(bvadd " + strings.Join(parts, " ") + ")"
	}
	conj := func(from int) []string {
		var cs []string
		for j := from; j < k; j++ {
			cs = append(cs, isDigit(j))
		}
		if k-from > 1 {
			cs = append(cs, "(not (= "+b[from].term().S+" #x30))")
		}
		return cs
	}
	pos := append(conj(0), "(= "+it+" "+val(0)+")")
	if o.I.S && o.Kind == "d" {
		pos = append(pos, "(bvsge "+it+" "+bvLit(0, w)+")")
	}
	alts := []string{"(and " + strings.Join(pos, " ") + ")"}
	if o.Kind == "d" && o.I.S && k >= 2 {
		neg := append([]string{"(= " + b[0].term().S + " #x2d)", "(not (= " + b[1].term().S + " #x30))"}, conj(1)...)
		neg = append(neg, "(= "+it+" (bvneg "+val(1)+"))")
		alts = append(alts, "(and "+strings.Join(neg, " ")+")")
	}
	return mkBoolT(&Term{S: "(or false " + strings.Join(alts, " ") + ")"})
}

func oneOpaqueEq(a, b []Int) (Bool, bool) {
	if hasOpaque(b) {
		return Bool{}, false
	}
	p := -1
	for i := range a {
		if a[i].X != nil {
			if p >= 0 {
				return Bool{}, false
			}
			p = i
		}
	}
	isFloat := p >= 0 && (a[p].X.Kind == "g" || a[p].X.Kind == "v")
	if p < 0 || (a[p].X.Kind != "d" && a[p].X.Kind != "u" && !isFloat) {
		return Bool{}, false
	}
	tail := len(a) - p - 1
	mid := len(b) - p - tail
	if mid < 1 {
		return Bool{C: false}, true
	}
	r := Bool{C: true}
	for i := 0; i < p; i++ {
		r = band(r, eqInt(a[i], b[i]))
	}
	for i := 0; i < tail; i++ {
		r = band(r, eqInt(a[len(a)-1-i], b[len(b)-1-i]))
	}
	if r.T == nil && !r.C {
		return r, true
	}
	if isFloat {
		if mid != 1 {
			return Bool{}, false
		}
		return band(r, floatDigitEq(a[p].X, b[p])), true
	}
	if mid > 8 {
		return Bool{}, false
	}
	return band(r, decimalEq(a[p].X, b[p:p+mid])), true
}

// floatDigitEq: the only one-byte %g renderings are the digits 0..9.
func floatDigitEq(o *Opaque, y Int) Bool {
	f, b := o.F.term().S, y.term().S
	var alts []string
	for d := 0; d <= 9; d++ {
		c := fmt.Sprintf("(and (= %s %s) (fp.eq %s %s)", b, bvLit(uint64('0'+d), 8), f, fpLit(float64(d)))
		if d == 0 {
			c += " (not (fp.isNegative " + f + "))"
		}
		alts = append(alts, c+")")
	}
	return mkBoolT(&Term{S: "(or " + strings.Join(alts, " ") + ")"})
}

// bytesEq is piecewise equality of two strings.
func bytesEq(a, b []Int) Bool {
	if !hasOpaque(a) && !hasOpaque(b) {
		if len(a) != len(b) {
			return Bool{C: false}
		}
		r := Bool{C: true}
		for i := range a {
			r = band(r, eqInt(a[i], b[i]))
			if r.T == nil && !r.C {
				return r
			}
		}
		return r
	}
	// an opaque piece (a formatted number or text) is never empty
	if len(a) == 0 || len(b) == 0 {
		return Bool{C: len(a) == len(b)}
	}
	// unknown text (e.g. what fmt prints for a format whose verbs depend on
	// data): equal when the very same pieces, otherwise undetermined - an
	// unconstrained boolean, so that an assertion depending on it becomes a
	// candidate settled by the native replay
	if ia, ib := unkID(a), unkID(b); ia != 0 || ib != 0 {
		if len(a) == len(b) {
			same := true
			for i := range a {
				switch {
				case a[i].X != nil && b[i].X != nil:
					same = same && a[i].X.Kind == "unk" && b[i].X.Kind == "unk" && a[i].X.ID == b[i].X.ID
				case a[i].X == nil && b[i].X == nil:
					r := eqInt(a[i], b[i])
					same = same && r.T == nil && r.C
				default:
					same = false
				}
			}
			if same {
				return Bool{C: true}
			}
		}
		return mkBoolT(&Term{S: fmt.Sprintf("(unk_eq %d %d)", ia, ib)})
	}
	// a whole string that is one formatted integer against plain bytes
	if len(a) == 1 && a[0].X != nil && (a[0].X.Kind == "d" || a[0].X.Kind == "u") && !hasOpaque(b) {
		return decimalEq(a[0].X, b)
	}
	if len(b) == 1 && b[0].X != nil && (b[0].X.Kind == "d" || b[0].X.Kind == "u") && !hasOpaque(a) {
		return decimalEq(b[0].X, a)
	}
	// a whole string that is one %g/%v float against a single plain byte:
	// the only one-byte renderings are the digits 0..9 (of +0, 1, ... 9)
	oneFloat := func(x, y []Int) (Bool, bool) {
		if len(x) == 1 && x[0].X != nil && (x[0].X.Kind == "g" || x[0].X.Kind == "v") && len(y) == 1 && y[0].X == nil {
			return floatDigitEq(x[0].X, y[0]), true
		}
		return Bool{}, false
	}
	if r, ok := oneFloat(a, b); ok {
		return r
	}
	if r, ok := oneFloat(b, a); ok {
		return r
	}
	// exactly one formatted integer inside one string, plain bytes in the
	// other: the pieces around it align with both ends of the other string
	if r, ok := oneOpaqueEq(a, b); ok {
		return r
	}
	if r, ok := oneOpaqueEq(b, a); ok {
		return r
	}
	// aligned comparison only
	if len(a) != len(b) {
		panic(inconclusive{"comparison of strings with opaque pieces of different shape"})
	}
	r := Bool{C: true}
	for i := range a {
		switch {
		case a[i].X != nil && b[i].X != nil:
			r = band(r, opaqueEq(a[i].X, b[i].X))
		case a[i].X == nil && b[i].X == nil:
			r = band(r, eqInt(a[i], b[i]))
		default:
			panic(inconclusive{"comparison of strings with opaque pieces of different shape"})
		}
		if r.T == nil && !r.C {
			return r
		}
	}
	return r
}

// strLess decides a < b lexicographically, forking on symbolic bytes.
func (e *Exec) strLess(a, b []Int) bool {
	for i := 0; i < len(a) && i < len(b); i++ {
		if a[i].X != nil || b[i].X != nil {
			panic(inconclusive{"ordering of strings with opaque pieces"})
		}
		eq := eqInt(a[i], b[i])
		if e.decide(eq) {
			continue
		}
		return e.decide(intBinop(token.LSS, a[i], b[i]).(Bool))
	}
	return len(a) < len(b)
}

func (e *Exec) decide(b Bool) bool {
	if b.T == nil {
		return b.C
	}
	return e.branch(b.T)
}

// maxTermLen is the size above which a term is given a name (a fresh
// constant defined equal to it), so that repeated use (x = x*x) does not
// duplicate text exponentially.
const maxTermLen = 400

func (e *Exec) named(v value) value {
	switch x := v.(type) {
	case Int:
		if x.T != nil && len(x.T.S) > maxTermLen {
			n := e.fresh("t", bvSort(x.W))
			e.sol.Send("(assert (= " + n.S + " " + x.T.S + "))")
			x.T = n
			return x
		}
	case Float:
		if x.T != nil && len(x.T.S) > maxTermLen {
			n := e.fresh("t", fpSort)
			e.sol.Send("(assert (= " + n.S + " " + x.T.S + "))")
			x.T = n
			return x
		}
	case Bool:
		if x.T != nil && len(x.T.S) > 4*maxTermLen {
			n := e.fresh("t", "Bool")
			e.sol.Send("(assert (= " + n.S + " " + x.T.S + "))")
			x.T = n
			return x
		}
	}
	return v
}

func (e *Exec) binop(op token.Token, t types.Type, x, y value) value {
	switch x := x.(type) {
	case Int:
		return e.named(e.intBinopE(op, x, y.(Int)))
	case Float:
		return e.named(floatBinop(op, x, y.(Float)))
	case Bool:
		yb := y.(Bool)
		var eq Bool
		if x.T == nil && yb.T == nil {
			eq = Bool{C: x.C == yb.C}
		} else if x.T == nil {
			if x.C {
				eq = yb
			} else {
				eq = bnot(yb)
			}
		} else if yb.T == nil {
			if yb.C {
				eq = x
			} else {
				eq = bnot(x)
			}
		} else {
			eq = Bool{T: &Term{S: "(= " + x.T.S + " " + yb.T.S + ")"}}
		}
		switch op {
		case token.EQL:
			return eq
		case token.NEQ:
			return bnot(eq)
		case token.AND, token.LAND:
			return band(x, yb)
		case token.OR, token.LOR:
			return bor(x, yb)
		}
	case string, SStr:
		switch op {
		case token.ADD:
			return mkStr(append(append([]Int{}, strBytes(x)...), strBytes(y)...))
		case token.EQL:
			return bytesEq(strBytes(x), strBytes(y))
		case token.NEQ:
			return bnot(bytesEq(strBytes(x), strBytes(y)))
		case token.LSS:
			return Bool{C: e.strLess(strBytes(x), strBytes(y))}
		case token.GTR:
			return Bool{C: e.strLess(strBytes(y), strBytes(x))}
		case token.LEQ:
			return Bool{C: !e.strLess(strBytes(y), strBytes(x))}
		case token.GEQ:
			return Bool{C: !e.strLess(strBytes(x), strBytes(y))}
		}
	case *value:
		yp, _ := y.(*value)
		switch op {
		case token.EQL:
			return Bool{C: x == yp}
		case token.NEQ:
			return Bool{C: x != yp}
		}
	case iface:
		yi := y.(iface)
		eq := e.ifaceEq(x, yi)
		if op == token.EQL {
			return eq
		}
		return bnot(eq)
	case []value:
		// only comparison with nil
		eq := x == nil
		if op == token.EQL {
			return Bool{C: eq}
		}
		return Bool{C: !eq}
	case *channel:
		yc, _ := y.(*channel)
		if op == token.EQL {
			return Bool{C: x == yc}
		}
		return Bool{C: x != yc}
	case *omap:
		ym, _ := y.(*omap)
		if op == token.EQL {
			return Bool{C: x == ym}
		}
		return Bool{C: x != ym}
	case *closure:
		if op == token.EQL {
			return Bool{C: x == nil}
		}
		return Bool{C: x != nil}
	case structure:
		eq := e.structEq(x, y.(structure))
		if op == token.EQL {
			return eq
		}
		return bnot(eq)
	case TimeV:
		panic(inconclusive{"== on time.Time"})
	case nil:
		if op == token.EQL {
			return Bool{C: y == nil}
		}
		return Bool{C: y != nil}
	}
	panic(inconclusive{fmt.Sprintf("binop %v on %T, %T", op, x, y)})
}

// eqValue is symbolic equality of two comparable values (no forking).
func (e *Exec) eqValue(a, b value) Bool {
	switch a := a.(type) {
	case Int:
		return eqInt(a, b.(Int))
	case Bool:
		return e.binop(token.EQL, nil, a, b).(Bool)
	case Float:
		return floatBinop(token.EQL, a, b.(Float)).(Bool)
	case string, SStr:
		return bytesEq(strBytes(a), strBytes(b))
	case *value:
		bp, _ := b.(*value)
		return Bool{C: a == bp}
	case *channel:
		bc, _ := b.(*channel)
		return Bool{C: a == bc}
	case structure:
		return e.structEq(a, b.(structure))
	case array:
		bb := b.(array)
		r := Bool{C: true}
		for i := range a {
			r = band(r, e.eqValue(a[i], bb[i]))
		}
		return r
	case iface:
		return e.ifaceEq(a, b.(iface))
	case nil:
		return Bool{C: b == nil}
	}
	panic(inconclusive{fmt.Sprintf("equality on %T", a)})
}

func (e *Exec) structEq(a, b structure) Bool {
	r := Bool{C: true}
	for i := range a {
		r = band(r, e.eqValue(a[i], b[i]))
		if r.T == nil && !r.C {
			return r
		}
	}
	return r
}

func (e *Exec) ifaceEq(x, y iface) Bool {
	if x.t == nil || y.t == nil {
		return Bool{C: x.t == nil && y.t == nil}
	}
	if !types.Identical(x.t, y.t) {
		return Bool{C: false}
	}
	if _, ok := x.v.(nativeObj); ok {
		return Bool{C: x.v == y.v}
	}
	return e.eqValue(x.v, y.v)
}

func (e *Exec) intBinopE(op token.Token, x, y Int) value {
	if (op == token.QUO || op == token.REM) && !y.isConc() {
		// division by a symbolic value: fork on zero
		z := eqInt(y, mkInt(y.W, y.S, 0))
		if e.decide(z) {
			panic(goPanic{"runtime error: integer divide by zero"})
		}
	}
	if (op == token.SHL || op == token.SHR) && y.S && !y.isConc() {
		neg := intBinop(token.LSS, y, mkInt(y.W, true, 0)).(Bool)
		if e.decide(neg) {
			panic(goPanic{"runtime error: negative shift amount"})
		}
	}
	return intBinop(op, x, y)
}

func intBinop(op token.Token, x, y Int) value {
	if op == token.EQL {
		return eqInt(x, y)
	}
	if op == token.NEQ {
		return bnot(eqInt(x, y))
	}
	if x.isConc() && y.isConc() {
		return intBinopConcrete(op, x, y)
	}
	w := x.W
	a, b := x.term().S, y.term().S
	if op == token.SHL || op == token.SHR {
		// bring the shift count to the operand width, saturating
		if y.W > w {
			ys := y.term().S
			b = fmt.Sprintf("(ite (bvuge %s %s) %s ((_ extract %d 0) %s))", ys, bvLit(uint64(w), y.W), bvLit(uint64(w), w), w-1, ys)
		} else if y.W < w {
			b = fmt.Sprintf("((_ zero_extend %d) %s)", w-y.W, y.term().S)
		}
	}
	bv := func(f string) value {
		return Int{W: x.W, S: x.S, T: &Term{S: "(" + f + " " + a + " " + b + ")"}}
	}
	bl := func(f string) value { return Bool{T: &Term{S: "(" + f + " " + a + " " + b + ")"}} }
	pick := func(s, u string) string {
		if x.S {
			return s
		}
		return u
	}
	// light algebraic simplifications that keep terms small
	if y.isConc() {
		switch {
		case y.C == 0 && (op == token.ADD || op == token.SUB || op == token.OR || op == token.XOR || op == token.SHL || op == token.SHR):
			return x
		case y.C == 1 && (op == token.MUL || op == token.QUO):
			return x
		case y.C == 0 && (op == token.MUL || op == token.AND):
			return mkInt(w, x.S, 0)
		}
	}
	if x.isConc() {
		switch {
		case x.C == 0 && (op == token.ADD || op == token.OR || op == token.XOR):
			return y
		case x.C == 1 && op == token.MUL:
			return y
		case x.C == 0 && (op == token.MUL || op == token.AND):
			return mkInt(w, x.S, 0)
		}
	}
	switch op {
	case token.ADD:
		return bv("bvadd")
	case token.SUB:
		if a == b {
			return mkInt(w, x.S, 0)
		}
		return bv("bvsub")
	case token.MUL:
		return bv("bvmul")
	case token.QUO:
		return bv(pick("bvsdiv", "bvudiv"))
	case token.REM:
		return bv(pick("bvsrem", "bvurem"))
	case token.AND:
		return bv("bvand")
	case token.OR:
		return bv("bvor")
	case token.XOR:
		return bv("bvxor")
	case token.AND_NOT:
		return Int{W: w, S: x.S, T: &Term{S: "(bvand " + a + " (bvnot " + b + "))"}}
	case token.SHL:
		return bv("bvshl")
	case token.SHR:
		return bv(pick("bvashr", "bvlshr"))
	case token.LSS:
		if a == b {
			return Bool{C: false}
		}
		return bl(pick("bvslt", "bvult"))
	case token.LEQ:
		if a == b {
			return Bool{C: true}
		}
		return bl(pick("bvsle", "bvule"))
	case token.GTR:
		if a == b {
			return Bool{C: false}
		}
		return bl(pick("bvsgt", "bvugt"))
	case token.GEQ:
		if a == b {
			return Bool{C: true}
		}
		return bl(pick("bvsge", "bvuge"))
	}
	panic(inconclusive{"symbolic int binop " + op.String()})
}

func intBinopConcrete(op token.Token, x, y Int) value {
	w, s := x.W, x.S
	if op == token.SHL || op == token.SHR {
		var cnt uint64
		if y.S {
			if y.signed() < 0 {
				panic(goPanic{"runtime error: negative shift amount"})
			}
			cnt = uint64(y.signed())
		} else {
			cnt = y.C
		}
		if op == token.SHL {
			if cnt >= uint64(w) {
				return mkInt(w, s, 0)
			}
			return mkInt(w, s, x.C<<cnt)
		}
		if s {
			if cnt >= uint64(w) {
				cnt = uint64(w) - 1
			}
			return mkInt(w, s, uint64(x.signed()>>cnt))
		}
		if cnt >= uint64(w) {
			return mkInt(w, s, 0)
		}
		return mkInt(w, s, x.C>>cnt)
	}
	if s {
		a, b := x.signed(), y.signed()
		switch op {
		case token.ADD:
			return mkInt(w, s, uint64(a+b))
		case token.SUB:
			return mkInt(w, s, uint64(a-b))
		case token.MUL:
			return mkInt(w, s, uint64(a*b))
		case token.QUO:
			if b == 0 {
				panic(goPanic{"runtime error: integer divide by zero"})
			}
			if b == -1 {
				return mkInt(w, s, uint64(-a))
			}
			return mkInt(w, s, uint64(a/b))
		case token.REM:
			if b == 0 {
				panic(goPanic{"runtime error: integer divide by zero"})
			}
			if b == -1 {
				return mkInt(w, s, 0)
			}
			return mkInt(w, s, uint64(a%b))
		case token.LSS:
			return Bool{C: a < b}
		case token.LEQ:
			return Bool{C: a <= b}
		case token.GTR:
			return Bool{C: a > b}
		case token.GEQ:
			return Bool{C: a >= b}
		case token.AND:
			return mkInt(w, s, uint64(a&b))
		case token.OR:
			return mkInt(w, s, uint64(a|b))
		case token.XOR:
			return mkInt(w, s, uint64(a^b))
		case token.AND_NOT:
			return mkInt(w, s, uint64(a&^b))
		}
	} else {
		a, b := x.C, y.C
		switch op {
		case token.ADD:
			return mkInt(w, s, a+b)
		case token.SUB:
			return mkInt(w, s, a-b)
		case token.MUL:
			return mkInt(w, s, a*b)
		case token.QUO:
			if b == 0 {
				panic(goPanic{"runtime error: integer divide by zero"})
			}
			return mkInt(w, s, a/b)
		case token.REM:
			if b == 0 {
				panic(goPanic{"runtime error: integer divide by zero"})
			}
			return mkInt(w, s, a%b)
		case token.LSS:
			return Bool{C: a < b}
		case token.LEQ:
			return Bool{C: a <= b}
		case token.GTR:
			return Bool{C: a > b}
		case token.GEQ:
			return Bool{C: a >= b}
		case token.AND:
			return mkInt(w, s, a&b)
		case token.OR:
			return mkInt(w, s, a|b)
		case token.XOR:
			return mkInt(w, s, a^b)
		case token.AND_NOT:
			return mkInt(w, s, a&^b)
		}
	}
	panic(inconclusive{"concrete int binop " + op.String()})
}

func floatBinop(op token.Token, x, y Float) value {
	if x.T == nil && y.T == nil {
		a, b := x.C, y.C
		switch op {
		case token.ADD:
			return Float{C: a + b}
		case token.SUB:
			return Float{C: a - b}
		case token.MUL:
			return Float{C: a * b}
		case token.QUO:
			return Float{C: a / b}
		case token.EQL:
			return Bool{C: a == b}
		case token.NEQ:
			return Bool{C: a != b}
		case token.LSS:
			return Bool{C: a < b}
		case token.LEQ:
			return Bool{C: a <= b}
		case token.GTR:
			return Bool{C: a > b}
		case token.GEQ:
			return Bool{C: a >= b}
		}
		panic(inconclusive{"concrete float binop " + op.String()})
	}
	a, b := x.term().S, y.term().S
	fl := func(f string) value { return Float{T: &Term{S: "(" + f + " RNE " + a + " " + b + ")"}} }
	bl := func(f string) value { return Bool{T: &Term{S: "(" + f + " " + a + " " + b + ")"}} }
	switch op {
	case token.ADD:
		return fl("fp.add")
	case token.SUB:
		return fl("fp.sub")
	case token.MUL:
		return fl("fp.mul")
	case token.QUO:
		return fl("fp.div")
	case token.EQL:
		return bl("fp.eq")
	case token.NEQ:
		return bnot(bl("fp.eq").(Bool))
	case token.LSS:
		return bl("fp.lt")
	case token.LEQ:
		return bl("fp.leq")
	case token.GTR:
		return bl("fp.gt")
	case token.GEQ:
		return bl("fp.geq")
	}
	panic(inconclusive{"symbolic float binop " + op.String()})
}

func (e *Exec) declUF(name, sig string) {
	if e.ufDecl[name] {
		return
	}
	e.ufDecl[name] = true
	e.sol.Send("(declare-fun " + name + " " + sig + ")")
}

func (e *Exec) conv(to, from types.Type, x value) value {
	tu, fu := to.Underlying(), from.Underlying()
	if w, s, ok := intOfType(tu); ok {
		switch xi := x.(type) {
		case Int:
			if xi.FB != nil {
				if w == 64 {
					xi.S = s
					return xi
				}
				panic(inconclusive{"narrowing of Float64bits"})
			}
			if xi.isConc() {
				if xi.S {
					return mkInt(w, s, uint64(xi.signed()))
				}
				return mkInt(w, s, xi.C)
			}
			switch {
			case w == xi.W:
				return Int{W: w, S: s, T: xi.T}
			case w < xi.W:
				return Int{W: w, S: s, T: &Term{S: fmt.Sprintf("((_ extract %d 0) %s)", w-1, xi.T.S)}}
			default:
				ext := "zero_extend"
				if xi.S {
					ext = "sign_extend"
				}
				return Int{W: w, S: s, T: &Term{S: fmt.Sprintf("((_ %s %d) %s)", ext, w-xi.W, xi.T.S)}}
			}
		case Float:
			if xi.T == nil {
				f := xi.C
				if s {
					if f != f || f >= 9223372036854775808.0 || f < -9223372036854775808.0 {
						// implementation-defined in Go; amd64 yields MinInt64
						return mkInt(w, s, 1<<63)
					}
					return mkInt(w, s, uint64(int64(f)))
				}
				return mkInt(w, s, uint64(f))
			}
			if w != 64 || !s {
				panic(inconclusive{"symbolic float -> non-int64 conversion"})
			}
			// in range: exact SMT truncation; out of range: implementation
			// defined, modelled as the amd64 result (MinInt64).
			t := xi.T.S
			lo := fpLit(-9223372036854775808.0)
			hi := fpLit(9223372036854775808.0)
			return Int{W: 64, S: true, T: &Term{S: fmt.Sprintf("(ite (and (fp.geq %s %s) (fp.lt %s %s)) ((_ fp.to_sbv 64) RTZ %s) %s)", t, lo, t, hi, t, bvLit(1<<63, 64))}}
		}
		panic(inconclusive{fmt.Sprintf("conv %v -> %v (%T)", from, to, x)})
	}
	if tb, ok := tu.(*types.Basic); ok && (tb.Kind() == types.Float64 || tb.Kind() == types.Float32) {
		if tb.Kind() == types.Float32 {
			panic(inconclusive{"float32"})
		}
		switch x := x.(type) {
		case Int:
			if x.isConc() {
				if x.S {
					return Float{C: float64(x.signed())}
				}
				return Float{C: float64(x.C)}
			}
			f := "to_fp"
			if !x.S {
				f = "to_fp_unsigned"
			}
			return Float{T: &Term{S: fmt.Sprintf("((_ %s 11 53) RNE %s)", f, x.term().S)}}
		case Float:
			return x
		}
	}
	if tb, ok := tu.(*types.Basic); ok && tb.Kind() == types.String {
		switch x := x.(type) {
		case []value: // []byte -> string
			b := make([]Int, len(x))
			for i := range x {
				b[i] = x[i].(Int)
			}
			return mkStr(b)
		case string, SStr:
			return x
		case Int: // string(rune)
			if x.isConc() {
				return string(rune(x.signed()))
			}
		}
	}
	if ts, ok := tu.(*types.Slice); ok {
		if fb, isStr := fu.(*types.Basic); isStr && fb.Info()&types.IsString != 0 {
			if eb, ok := ts.Elem().Underlying().(*types.Basic); ok && eb.Kind() == types.Uint8 {
				bs := strBytes(x)
				if hasOpaque(bs) {
					panic(inconclusive{"[]byte of string with opaque piece"})
				}
				r := make([]value, len(bs))
				for i := range bs {
					r[i] = bs[i]
				}
				return r
			}
		}
	}
	if _, ok := tu.(*types.Pointer); ok {
		return x // unsafe.Pointer round trips
	}
	if tb, ok := tu.(*types.Basic); ok && tb.Kind() == types.UnsafePointer {
		return x
	}
	panic(inconclusive{fmt.Sprintf("conv %v -> %v", from, to)})
}

// valuesEqual decides equality of two map keys / comparable values, forking if symbolic.
func (e *Exec) valuesEqual(a, b value) bool {
	return e.decide(e.eqValue(a, b))
}

func (e *Exec) mapGet(m *omap, k value) (value, bool) {
	if m == nil {
		return nil, false
	}
	if e.race.on {
		e.raceRecord(m, false, false, "map read")
	}
	for _, en := range m.e {
		if e.valuesEqual(en.k, k) {
			return en.v, true
		}
	}
	return nil, false
}

func (e *Exec) mapSet(m *omap, k, v value) {
	if e.race.on {
		e.raceRecord(m, true, false, "map write")
	}
	for i := range m.e {
		if e.valuesEqual(m.e[i].k, k) {
			m.e[i].v = v
			return
		}
	}
	m.e = append(m.e, omapEntry{copyVal(k), v})
}

func (e *Exec) mapDelete(m *omap, k value) {
	if m == nil {
		return
	}
	if e.race.on {
		e.raceRecord(m, true, false, "map delete")
	}
	for i := range m.e {
		if e.valuesEqual(m.e[i].k, k) {
			m.e = append(m.e[:i:i], m.e[i+1:]...)
			return
		}
	}
}

func joinTerms(ts []string) string { return strings.Join(ts, " ") }
