package main

import (
	"fmt"
	"strings"
)

// Exact model of whether time.Parse accepts a value, for layouts made of the
// reference elements 2006 01 02 _2 15 04 05 Jan and literal text (no zone,
// no fractional-second element).  time.Parse stays an uninterpreted function
// of the value bytes for the instant it returns, but for these layouts its
// success, the year and nanosecond of the result and whether the result is a
// given instant are defined exactly, as axioms over the value bytes.  The
// formula follows time.Parse of the Go release in use step by step (skip,
// getnum, lookup, the fractional second accepted after "05", range checks,
// days in month) and is validated against it by differential testing
// (timeparse_test.go) and, on every counterexample, by native re-evaluation
// of the model (ufrefine.go).

type tpTok struct {
	kind string // "lit", "2006", "01", "02", "_2", "15", "04", "05", "Jan"
	lit  string
}

// tpTokenize mirrors time.nextStdChunk for the supported subset; ok=false
// when the layout contains any other reference element.
func tpTokenize(layout string) ([]tpTok, bool) {
	var toks []tpTok
	lit := ""
	flush := func() {
		if lit != "" {
			toks = append(toks, tpTok{kind: "lit", lit: lit})
			lit = ""
		}
	}
	has := func(i int, p string) bool { return strings.HasPrefix(layout[i:], p) }
	for i := 0; i < len(layout); {
		c := layout[i]
		switch {
		case c == 'J' && has(i, "Jan"):
			if has(i, "January") {
				return nil, false
			}
			flush()
			toks = append(toks, tpTok{kind: "Jan"})
			i += 3
		case c == 'M' && (has(i, "Mon") || has(i, "MST")):
			return nil, false
		case c == '0' && i+1 < len(layout) && layout[i+1] >= '1' && layout[i+1] <= '6':
			if has(i, "002") {
				return nil, false
			}
			k := layout[i : i+2]
			if k == "03" || k == "06" {
				return nil, false
			}
			flush()
			toks = append(toks, tpTok{kind: k})
			i += 2
		case c == '1':
			if !has(i, "15") {
				return nil, false
			}
			flush()
			toks = append(toks, tpTok{kind: "15"})
			i += 2
		case c == '2':
			if !has(i, "2006") {
				return nil, false
			}
			flush()
			toks = append(toks, tpTok{kind: "2006"})
			i += 4
		case c == '_':
			if has(i, "_2006") || has(i, "__2") {
				return nil, false
			}
			if has(i, "_2") {
				flush()
				toks = append(toks, tpTok{kind: "_2"})
				i += 2
			} else {
				lit += "_"
				i++
			}
		case c == '3' || c == '4' || c == '5':
			return nil, false
		case (c == 'P' && has(i, "PM")) || (c == 'p' && has(i, "pm")):
			return nil, false
		case c == '-' && has(i, "-07"):
			// only the numeric zone -0700 (not -07, -07:00, -070000, -07:00:00)
			if !has(i, "-0700") || has(i, "-070000") {
				return nil, false
			}
			flush()
			toks = append(toks, tpTok{kind: "-0700"})
			i += 5
		case c == 'Z' && has(i, "Z07"):
			return nil, false
		case (c == '.' || c == ',') && i+1 < len(layout) && (layout[i+1] == '0' || layout[i+1] == '9'):
			return nil, false
		default:
			lit += string(c)
			i++
		}
	}
	flush()
	return toks, true
}

// The parse is a deterministic automaton over (layout element, position in
// the value); states reached by different routes are merged, so the formula
// stays polynomial in the value length.  Every state gets a named condition
// and named field terms (define-fun), returned in defs.

type tpState struct {
	cond string            // Bool term (a defined name)
	f    map[string]string // field -> 32-bit term
}

type tpEdge struct {
	to    int
	conds []string
	field string
	val   string
}

type tpGen struct {
	b    []string // byte terms
	n    int
	pfx  string
	ndef int
	defs []string
}

func (g *tpGen) def(sort, body string) string {
	name := fmt.Sprintf("%s_%d", g.pfx, g.ndef)
	g.ndef++
	g.defs = append(g.defs, fmt.Sprintf("(define-fun %s () %s %s)", name, sort, body))
	return name
}

func (g *tpGen) eq(i int, c byte) string { return fmt.Sprintf("(= %s %s)", g.b[i], bvLit(uint64(c), 8)) }
func (g *tpGen) ne(i int, c byte) string { return "(not " + g.eq(i, c) + ")" }
func (g *tpGen) isDigit(i int) string {
	return fmt.Sprintf("(and (bvuge %s #x30) (bvule %s #x39))", g.b[i], g.b[i])
}
func (g *tpGen) notDigit(i int) string { return "(not " + g.isDigit(i) + ")" }
func (g *tpGen) dig(i int) string {
	return fmt.Sprintf("((_ zero_extend 24) (bvsub %s #x30))", g.b[i])
}
func c32(v int) string { return bvLit(uint64(uint32(v)), 32) }

// getnum models time.getnum from position p.
func (g *tpGen) getnum(p int, fixed bool, field string, pre []string) []tpEdge {
	var out []tpEdge
	if p >= g.n {
		return nil
	}
	if !fixed {
		cs := append(append([]string{}, pre...), g.isDigit(p))
		if p+1 < g.n {
			cs = append(cs, g.notDigit(p+1))
		}
		out = append(out, tpEdge{p + 1, cs, field, g.dig(p)})
	}
	if p+1 < g.n {
		v := fmt.Sprintf("(bvadd (bvmul %s %s) %s)", g.dig(p), c32(10), g.dig(p+1))
		out = append(out, tpEdge{p + 2, append(append([]string{}, pre...), g.isDigit(p), g.isDigit(p+1)), field, v})
	}
	return out
}

var tpMonths = []string{"jan", "feb", "mar", "apr", "may", "jun", "jul", "aug", "sep", "oct", "nov", "dec"}

var tpFields = []string{"year", "month", "day", "hour", "min", "sec", "nsec", "zoff"}

// edges returns the transitions of one layout step from position p.
func (g *tpGen) edges(kind string, lit byte, p int) []tpEdge {
	var out []tpEdge
	rng := func(es []tpEdge, mk func(v string) []string) []tpEdge {
		for i := range es {
			es[i].conds = append(es[i].conds, mk(es[i].val)...)
		}
		return es
	}
	switch kind {
	case "space":
		// time.skip on a space: the value must be exhausted or continue
		// with a space; all leading spaces are consumed
		if p == g.n {
			return []tpEdge{{to: p}}
		}
		for k := 1; p+k <= g.n; k++ {
			var cs []string
			for j := 0; j < k; j++ {
				cs = append(cs, g.eq(p+j, ' '))
			}
			if p+k < g.n {
				cs = append(cs, g.ne(p+k, ' '))
			}
			out = append(out, tpEdge{to: p + k, conds: cs})
		}
	case "char":
		if p < g.n {
			out = append(out, tpEdge{to: p + 1, conds: []string{g.eq(p, lit)}})
		}
	case "2006":
		if p+4 <= g.n {
			cs := []string{g.isDigit(p), g.isDigit(p + 1), g.isDigit(p + 2), g.isDigit(p + 3)}
			v := fmt.Sprintf("(bvadd (bvmul %s %s) (bvmul %s %s) (bvmul %s %s) %s)", g.dig(p), c32(1000), g.dig(p+1), c32(100), g.dig(p+2), c32(10), g.dig(p+3))
			out = append(out, tpEdge{p + 4, cs, "year", v})
		}
	case "Jan":
		if p+3 <= g.n {
			for mi, name := range tpMonths {
				var cs []string
				for j := 0; j < 3; j++ {
					cs = append(cs, fmt.Sprintf("(= (bvor %s #x20) %s)", g.b[p+j], bvLit(uint64(name[j]), 8)))
				}
				out = append(out, tpEdge{p + 3, cs, "month", c32(mi + 1)})
			}
		}
	case "01":
		out = rng(g.getnum(p, true, "month", nil), func(v string) []string {
			return []string{fmt.Sprintf("(bvuge %s %s)", v, c32(1)), fmt.Sprintf("(bvule %s %s)", v, c32(12))}
		})
	case "02":
		out = g.getnum(p, true, "day", nil)
	case "_2":
		if p < g.n {
			out = append(out, g.getnum(p+1, false, "day", []string{g.eq(p, ' ')})...)
			out = append(out, g.getnum(p, false, "day", []string{g.ne(p, ' ')})...)
		}
	case "15":
		out = rng(g.getnum(p, false, "hour", nil), func(v string) []string { return []string{fmt.Sprintf("(bvult %s %s)", v, c32(24))} })
	case "04":
		out = rng(g.getnum(p, true, "min", nil), func(v string) []string { return []string{fmt.Sprintf("(bvult %s %s)", v, c32(60))} })
	case "05":
		out = rng(g.getnum(p, true, "sec", nil), func(v string) []string { return []string{fmt.Sprintf("(bvult %s %s)", v, c32(60))} })
	case "-0700":
		// sign, two digits of hours (<= 24), two of minutes (<= 60)
		if p+5 <= g.n {
			hh := fmt.Sprintf("(bvadd (bvmul %s %s) %s)", g.dig(p+1), c32(10), g.dig(p+2))
			mm := fmt.Sprintf("(bvadd (bvmul %s %s) %s)", g.dig(p+3), c32(10), g.dig(p+4))
			off := fmt.Sprintf("(bvmul (bvadd (bvmul %s %s) %s) %s)", hh, c32(60), mm, c32(60))
			digits := []string{g.isDigit(p + 1), g.isDigit(p + 2), g.isDigit(p + 3), g.isDigit(p + 4),
				fmt.Sprintf("(bvule %s %s)", hh, c32(24)), fmt.Sprintf("(bvule %s %s)", mm, c32(60))}
			out = append(out, tpEdge{p + 5, append([]string{g.eq(p, '+')}, digits...), "zoff", off})
			out = append(out, tpEdge{p + 5, append([]string{g.eq(p, '-')}, digits...), "zoff", "(bvneg " + off + ")"})
		}
	case "frac":
		// after "05": a fractional second in the value is accepted although
		// the layout has none
		if p+1 >= g.n {
			return []tpEdge{{to: p}}
		}
		isFrac := fmt.Sprintf("(and (or %s %s) %s)", g.eq(p, '.'), g.eq(p, ','), g.isDigit(p+1))
		out = append(out, tpEdge{to: p, conds: []string{"(not " + isFrac + ")"}})
		for m := 1; p+m < g.n; m++ {
			cs := []string{fmt.Sprintf("(or %s %s)", g.eq(p, '.'), g.eq(p, ','))}
			for j := 1; j <= m; j++ {
				cs = append(cs, g.isDigit(p+j))
			}
			if p+1+m < g.n {
				cs = append(cs, g.notDigit(p+1+m))
			}
			ns := c32(0)
			scale := 100000000
			for j := 1; j <= m && j <= 9; j++ {
				ns = fmt.Sprintf("(bvadd %s (bvmul %s %s))", ns, g.dig(p+j), c32(scale))
				scale /= 10
			}
			out = append(out, tpEdge{p + 1 + m, cs, "nsec", ns})
		}
	}
	return out
}

// tpFormula returns the definitions, the acceptance term and the field terms
// for a value of len(b) bytes; ok=false when the layout is outside the
// supported subset.  pfx makes the defined names unique.
func tpFormula(layout string, b []string, pfx string) (defs []string, okT string, fields map[string]string, ok bool) {
	toks, ok := tpTokenize(layout)
	if !ok {
		return nil, "", nil, false
	}
	g := &tpGen{b: b, n: len(b), pfx: pfx}
	// flatten into steps
	type step struct {
		kind string
		lit  byte
	}
	var steps []step
	for _, t := range toks {
		if t.kind == "lit" {
			for i := 0; i < len(t.lit); i++ {
				if t.lit[i] == ' ' {
					if i > 0 && t.lit[i-1] == ' ' {
						continue // cutspace(prefix): consecutive layout spaces are one
					}
					steps = append(steps, step{kind: "space"})
				} else {
					steps = append(steps, step{kind: "char", lit: t.lit[i]})
				}
			}
			continue
		}
		steps = append(steps, step{kind: t.kind})
		if t.kind == "05" {
			steps = append(steps, step{kind: "frac"})
		}
	}
	cur := map[int]*tpState{0: {cond: "true", f: map[string]string{"year": c32(0), "month": c32(1), "day": c32(1), "hour": c32(0), "min": c32(0), "sec": c32(0), "nsec": c32(0), "zoff": c32(0)}}}
	for _, st := range steps {
		type inc struct {
			cond string
			from *tpState
			e    tpEdge
		}
		incoming := map[int][]inc{}
		var order []int
		for p := 0; p <= g.n; p++ {
			s := cur[p]
			if s == nil {
				continue
			}
			for _, e := range g.edges(st.kind, st.lit, p) {
				c := "(and " + s.cond + " true " + strings.Join(e.conds, " ") + ")"
				if _, seen := incoming[e.to]; !seen {
					order = append(order, e.to)
				}
				incoming[e.to] = append(incoming[e.to], inc{g.def("Bool", c), s, e})
			}
		}
		next := map[int]*tpState{}
		for _, to := range order {
			ins := incoming[to]
			ns := &tpState{f: map[string]string{}}
			var cs []string
			for _, in := range ins {
				cs = append(cs, in.cond)
			}
			ns.cond = g.def("Bool", "(or false "+strings.Join(cs, " ")+")")
			for _, k := range tpFields {
				val := func(in inc) string {
					if in.e.field == k {
						return in.e.val
					}
					return in.from.f[k]
				}
				t := val(ins[len(ins)-1])
				same := true
				for _, in := range ins {
					if val(in) != t {
						same = false
					}
				}
				if !same {
					for i := len(ins) - 2; i >= 0; i-- {
						t = fmt.Sprintf("(ite %s %s %s)", ins[i].cond, val(ins[i]), t)
					}
					t = g.def("(_ BitVec 32)", t)
				}
				ns.f[k] = t
			}
			next[to] = ns
		}
		cur = next
	}
	end := cur[g.n]
	if end == nil {
		return nil, "false", nil, true
	}
	y, m, d := end.f["year"], end.f["month"], end.f["day"]
	leap := fmt.Sprintf("(and (= (bvurem %s %s) %s) (or (not (= (bvurem %s %s) %s)) (= (bvurem %s %s) %s)))", y, c32(4), c32(0), y, c32(100), c32(0), y, c32(400), c32(0))
	dim := fmt.Sprintf("(ite (= %s %s) (ite %s %s %s) (ite (or (= %s %s) (= %s %s) (= %s %s) (= %s %s)) %s %s))",
		m, c32(2), leap, c32(29), c32(28), m, c32(4), m, c32(6), m, c32(9), m, c32(11), c32(30), c32(31))
	okT = g.def("Bool", fmt.Sprintf("(and %s (bvuge %s %s) (bvule %s %s))", end.cond, d, c32(1), d, dim))
	return g.defs, okT, end.f, true
}
