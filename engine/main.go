package main

import (
	"flag"
	"fmt"
	"os"
	"sort"
	"strings"
	"time"

	"golang.org/x/tools/go/packages"
	"golang.org/x/tools/go/ssa"
	"golang.org/x/tools/go/ssa/ssautil"
)

// Loaded is an SSA program built from /repo's working tree plus overlays.
type Loaded struct {
	prog  *ssa.Program
	pkgs  map[string]*ssa.Package
	LoadS float64
}

func repoDir() string {
	if d := os.Getenv("VERIF_REPO"); d != "" {
		return d
	}
	return "/repo"
}

// loadProgram type-checks and builds SSA for the given package patterns with
// the overlay files (absolute path -> content) in place.
func loadProgram(overlay map[string][]byte, patterns ...string) (*Loaded, error) {
	t0 := time.Now()
	cfg := &packages.Config{
		Mode:    packages.LoadAllSyntax,
		Dir:     repoDir(),
		Overlay: overlay,
		Env:     append(os.Environ(), "GOFLAGS=-mod=mod", "GOPROXY=off", "GOSUMDB=off", "GOTOOLCHAIN=local"),
	}
	pkgs, err := packages.Load(cfg, patterns...)
	if err != nil {
		return nil, err
	}
	var errs []string
	packages.Visit(pkgs, nil, func(p *packages.Package) {
		for _, e := range p.Errors {
			errs = append(errs, e.Error())
		}
	})
	if len(errs) > 0 {
		return nil, fmt.Errorf("load errors:\n%s", strings.Join(errs, "\n"))
	}
	prog, spkgs := ssautil.AllPackages(pkgs, ssa.InstantiateGenerics)
	prog.Build()
	l := &Loaded{prog: prog, pkgs: map[string]*ssa.Package{}}
	for _, p := range spkgs {
		if p != nil {
			l.pkgs[p.Pkg.Path()] = p
		}
	}
	for _, p := range prog.AllPackages() {
		l.pkgs[p.Pkg.Path()] = p
	}
	l.LoadS = time.Since(t0).Seconds()
	return l, nil
}

func cmdRun(args []string) {
	fs := flag.NewFlagSet("run", flag.ExitOnError)
	pkgPath := fs.String("pkg", "", "package import path")
	dir := fs.String("dir", "", "package dir relative to the repository root")
	harness := fs.String("harness", "", "harness source file(s), comma separated")
	entry := fs.String("entry", "", "entry function")
	workers := fs.Int("workers", 1, "parallel workers")
	first := fs.Bool("first", false, "stop at first violation")
	smtlog := fs.String("smtlog", "", "log SMT of worker 0 to file")
	maxPaths := fs.Int64("maxpaths", 0, "path budget")
	params := fs.String("params", "", "k=v,k=v harness parameters")
	fs.Parse(args)
	ov := map[string][]byte{}
	for i, h := range strings.Split(*harness, ",") {
		src, err := os.ReadFile(h)
		if err != nil {
			panic(err)
		}
		ov[fmt.Sprintf("%s/%s/zz_verif_h%d.go", repoDir(), *dir, i)] = src
	}
	l, err := loadProgram(ov, *pkgPath)
	if err != nil {
		fmt.Println(err)
		os.Exit(2)
	}
	p := l.pkgs[*pkgPath]
	fn := p.Func(*entry)
	if fn == nil {
		fmt.Println("entry not found")
		os.Exit(2)
	}
	cfg := JobConfig{Name: *entry, MaxSteps: 5_000_000, Workers: *workers, StopFirst: *first, Samples: 3, SMTLog: *smtlog, MaxPaths: *maxPaths, Params: map[string]int64{}}
	for _, kv := range strings.Split(*params, ",") {
		if kv == "" {
			continue
		}
		var k string
		var v int64
		parts := strings.SplitN(kv, "=", 2)
		k = parts[0]
		fmt.Sscan(parts[1], &v)
		cfg.Params[k] = v
	}
	t1 := time.Now()
	st := RunJob(l.prog, fn, []*ssa.Function{p.Func("init")}, cfg)
	runT := time.Since(t1)
	fmt.Printf("load=%.1fs run=%.1fs paths=%d aborted=%d steps=%d decisions=%d queries=%d (sat %d unsat %d unknown %d) solver=%.1fs maxq=%.2fs cachehits=%d\n",
		l.LoadS, runT.Seconds(), st.Paths, st.Aborted, st.Steps, st.Decisions, st.Queries, st.Sat, st.Unsat, st.Unknown, st.SolverTime.Seconds(), st.MaxQuery.Seconds(), st.CacheHits)
	fmt.Println("asserts reached:", st.Asserts)
	for i, s := range st.Incon {
		if i < 5 {
			fmt.Println("INCONCLUSIVE:", s)
		}
	}
	var fl []string
	for f, n := range st.Funcs {
		fl = append(fl, fmt.Sprintf("%s x%d", f, n))
	}
	sort.Strings(fl)
	fmt.Println("functions encoded:", len(fl))
	if os.Getenv("VERIF_VERBOSE") != "" {
		for _, f := range fl {
			fmt.Println("  ", f)
		}
		fmt.Println("stubs:", st.Stubs)
	}
	fmt.Println("violations:", len(st.Viol), "known hits:", len(st.KnownHit))
	for i, v := range st.Viol {
		if i >= 3 {
			break
		}
		fmt.Println("  ", v.ID, v.Msg)
		for _, in := range v.Inputs {
			fmt.Printf("      %s(%s)=%s\n", in.Tag, in.Kind, in.Val)
		}
	}
	if len(st.Samples) > 0 {
		fmt.Println("sample:", st.Samples[0])
	}
}

func main() {
	if len(os.Args) < 2 {
		fmt.Println("usage: gosym run|check|replay ...")
		os.Exit(2)
	}
	switch os.Args[1] {
	case "run":
		cmdRun(os.Args[2:])
	case "check":
		os.Exit(cmdCheck(os.Args[2:]))
	case "replay":
		os.Exit(cmdReplay(os.Args[2:]))
	default:
		fmt.Println("unknown command")
		os.Exit(2)
	}
}
