package main

import (
	"fmt"
	"math"
	"strconv"
	"strings"
)

// C01: program shapes.  Every shape is built as an intended tree; the
// program text is printed from the tree with the parentheses the documented
// operator levels require, and the same tree is handed to the reference
// interpreter in harness/vm/c01.go as a Go literal.  The text goes through
// the working tree's compiler (bridge); a shape the compiler rejects fails
// the check ("every such well-typed program is accepted").

const (
	ctNone   = 0
	ctInt    = 1
	ctFloat  = 2
	ctString = 3
	ctBool   = 4
)

type cN struct {
	K   string
	A   []*cN
	I   int64
	D   int64
	F   float64
	S   string
	T   int
	txt string // text of leaves
}

func (n *cN) lit() string {
	var b strings.Builder
	fmt.Fprintf(&b, "&rN{K: %q", n.K)
	if n.I != 0 {
		fmt.Fprintf(&b, ", I: %d", n.I)
	}
	if n.D != 0 {
		fmt.Fprintf(&b, ", D: %d", n.D)
	}
	if n.F != 0 {
		fmt.Fprintf(&b, ", F: math.Float64frombits(%d)", math.Float64bits(n.F))
	}
	if n.S != "" {
		fmt.Fprintf(&b, ", S: %q", n.S)
	}
	if n.T != 0 {
		fmt.Fprintf(&b, ", T: %d", n.T)
	}
	if len(n.A) > 0 {
		b.WriteString(", A: []*rN{")
		for _, a := range n.A {
			b.WriteString(a.lit())
			b.WriteString(", ")
		}
		b.WriteString("}")
	}
	b.WriteString("}")
	return b.String()
}

// operator levels of parser.y at the pinned commit (higher binds tighter)
func cLevel(n *cN) int {
	switch n.K {
	case "and", "or":
		return 1
	case "cmp":
		return 3
	case "neg":
		return 7
	case "bin":
		switch n.S {
		case "&", "|", "^":
			return 2
		case "<<", ">>":
			return 4
		case "+", "-":
			return 5
		}
		return 6
	}
	return 8
}

func (n *cN) text() string {
	sub := func(c *cN, min int) string {
		s := c.text()
		if cLevel(c) < min {
			return "(" + s + ")"
		}
		return s
	}
	switch n.K {
	case "bin", "cmp":
		l := cLevel(n)
		return sub(n.A[0], l) + " " + n.S + " " + sub(n.A[1], l+1)
	case "and":
		return sub(n.A[0], 1) + " && " + sub(n.A[1], 2)
	case "or":
		return sub(n.A[0], 1) + " || " + sub(n.A[1], 2)
	case "neg":
		return "~" + sub(n.A[0], 7)
	case "smatch":
		return sub(n.A[0], 8) + " =~ " + n.txt
	case "nsmatch":
		return sub(n.A[0], 8) + " !~ " + n.txt
	case "call":
		var as []string
		for _, a := range n.A {
			as = append(as, a.text())
		}
		return n.S + "(" + strings.Join(as, ", ") + ")"
	}
	return n.txt
}

// ---- builders ----

func cInt(i int64) *cN { return &cN{K: "int", I: i, T: ctInt, txt: strconv.FormatInt(i, 10)} }
func cFloat(f float64) *cN {
	return &cN{K: "float", F: f, T: ctFloat, txt: strconv.FormatFloat(f, 'f', -1, 64)}
}
func cStr(s string) *cN { return &cN{K: "str", S: s, T: ctString, txt: strconv.Quote(s)} }
func cBin(op string, l, r *cN) *cN {
	t := ctInt
	if l.T == ctFloat || r.T == ctFloat {
		t = ctFloat
	}
	if l.T == ctString || r.T == ctString {
		t = ctString
	}
	return &cN{K: "bin", S: op, A: []*cN{l, r}, T: t}
}
func cCmp(op string, l, r *cN) *cN { return &cN{K: "cmp", S: op, A: []*cN{l, r}, T: ctBool} }
func cAnd(l, r *cN) *cN            { return &cN{K: "and", A: []*cN{l, r}, T: ctBool} }
func cOr(l, r *cN) *cN             { return &cN{K: "or", A: []*cN{l, r}, T: ctBool} }
func cNeg(x *cN) *cN               { return &cN{K: "neg", A: []*cN{x}, T: ctInt} }
func cCall(name string, t int, args ...*cN) *cN {
	return &cN{K: "call", S: name, A: args, T: t}
}

// c01Prog accumulates declarations and patterns of one shape.
type c01Prog struct {
	decls   []string
	mtypes  []int // expected metrics.Type per metric (-1: any)
	mnames  []string
	npat    int
	pats    []c01Pat // per pattern: regexp source and, for =~, the pattern whose capture is matched against
	consts  []string
	body    []*cN
	bodyTxt []string
}

type c01Pat struct {
	re   string
	subj int // -1: matched against the line
}

const (
	mtInt    = 0
	mtFloat  = 1
	mtString = 2
)

func (p *c01Prog) metric(decl, name string, typ int) int {
	p.decls = append(p.decls, decl)
	p.mnames = append(p.mnames, name)
	p.mtypes = append(p.mtypes, typ)
	return len(p.mnames) - 1
}

func (p *c01Prog) mread(idx int, t int) *cN {
	return &cN{K: "mread", I: int64(idx), T: t, txt: p.mnames[idx]}
}

// pat declares pattern number npat with one capture group of the class and
// returns (pattern node, capture node).
func (p *c01Prog) pat(class string) (*cN, *cN) {
	i := p.npat
	p.npat++
	name := string(rune('a' + i))
	var re string
	t := ctString
	switch class {
	case "int":
		re, t = `\d+`, ctInt
	case "float":
		re, t = `\d+\.\d+`, ctFloat
	case "word":
		re = `\w+`
	case "nonspace":
		re = `\S+`
	case "lower":
		re = `[a-z]+`
	case "none":
		p.pats = append(p.pats, c01Pat{fmt.Sprintf("K%d=x", i+1), -1})
		return &cN{K: "pat", I: int64(i), T: ctBool, txt: fmt.Sprintf("/K%d=x/", i+1)}, nil
	}
	p.pats = append(p.pats, c01Pat{fmt.Sprintf("K%d=(?P<%s>%s)", i+1, name, re), -1})
	pt := &cN{K: "pat", I: int64(i), T: ctBool, txt: fmt.Sprintf("/K%d=(?P<%s>%s)/", i+1, name, re)}
	cp := &cN{K: "cap", I: int64(i), D: 1, T: t, txt: "$" + name}
	return pt, cp
}

// constPat declares a named pattern usable on the right of && and ||.
func (p *c01Prog) constPat(class string) (*cN, *cN) {
	pt, cp := p.pat(class)
	name := fmt.Sprintf("P%d", pt.I+1)
	p.consts = append(p.consts, "const "+name+" "+pt.txt)
	pt.txt = name
	return pt, cp
}

// smatch: expr =~ /re/ with its own pattern slot.
func (p *c01Prog) smatch(x *cN, neg bool) *cN {
	i := p.npat
	p.npat++
	k := "smatch"
	if neg {
		k = "nsmatch"
	}
	p.pats = append(p.pats, c01Pat{fmt.Sprintf("S%d", i+1), int(x.I)})
	return &cN{K: k, I: int64(i), A: []*cN{x}, T: ctBool, txt: fmt.Sprintf("/S%d/", i+1)}
}

// smatchCap: expr =~ /re/ where re (given) has one named capture group of
// digits; several patterns of one program may share the text.
func (p *c01Prog) smatchCap(x *cN, re, group string) (*cN, *cN) {
	i := p.npat
	p.npat++
	p.pats = append(p.pats, c01Pat{re, int(x.I)})
	m := &cN{K: "smatch", I: int64(i), A: []*cN{x}, T: ctBool, txt: "/" + re + "/"}
	cp := &cN{K: "cap", I: int64(i), D: 1, T: ctInt, txt: "$" + group}
	return m, cp
}

func cBlock(stmts ...*cN) *cN { return &cN{K: "block", A: stmts} }
func cCond(c *cN, then *cN, els *cN) *cN {
	n := &cN{K: "cond", A: []*cN{c, then}}
	if els != nil {
		n.A = append(n.A, els)
	}
	return n
}
func cOtherwise(b *cN) *cN { return &cN{K: "otherwise", A: []*cN{b}} }
func cKeys(ks ...*cN) *cN  { return &cN{K: "keys", A: ks} }
func (p *c01Prog) set(idx int, op string, keys *cN, v *cN) *cN {
	if keys == nil {
		keys = cKeys()
	}
	n := &cN{K: "set", I: int64(idx), S: op, A: []*cN{keys}, txt: p.mnames[idx]}
	if v != nil {
		n.A = append(n.A, v)
	}
	return n
}
func (p *c01Prog) inc(idx int, keys ...*cN) *cN { return p.set(idx, "++", cKeys(keys...), nil) }
func (p *c01Prog) del(idx int, after int64, afterTxt string, keys ...*cN) *cN {
	return &cN{K: "del", I: int64(idx), D: after, S: afterTxt, A: []*cN{cKeys(keys...)}, txt: p.mnames[idx]}
}

func stmtText(n *cN, ind string) string {
	switch n.K {
	case "block":
		var b strings.Builder
		for _, s := range n.A {
			b.WriteString(stmtText(s, ind))
		}
		return b.String()
	case "cond":
		s := ind + n.A[0].text() + " {\n" + stmtText(n.A[1], ind+"  ") + ind + "}"
		if len(n.A) > 2 {
			s += " else {\n" + stmtText(n.A[2], ind+"  ") + ind + "}"
		}
		return s + "\n"
	case "otherwise":
		return ind + "otherwise {\n" + stmtText(n.A[0], ind+"  ") + ind + "}\n"
	case "set":
		lhs := n.txt
		for _, k := range n.A[0].A {
			lhs += "[" + k.text() + "]"
		}
		switch n.S {
		case "++", "--":
			return ind + lhs + n.S + "\n"
		}
		return ind + lhs + " " + n.S + " " + n.A[1].text() + "\n"
	case "del":
		lhs := n.txt
		for _, k := range n.A[0].A {
			lhs += "[" + k.text() + "]"
		}
		if n.D != 0 {
			return ind + "del " + lhs + " after " + n.S + "\n"
		}
		return ind + "del " + lhs + "\n"
	case "stop":
		return ind + "stop\n"
	case "next":
		return ind + "next\n"
	case "deco":
		return ind + "@" + n.S + " {\n" + stmtText(n.A[1], ind+"  ") + ind + "}\n"
	case "expr":
		return ind + n.A[0].text() + "\n"
	}
	panic("stmtText: " + n.K)
}

type c01Shape struct {
	Name  string
	Quick bool
	Src   string
	Lit   string
	Types []int
	Pats  []c01Pat
}

func (p *c01Prog) shape(name string, quick bool, defs string) c01Shape {
	src := strings.Join(p.decls, "\n") + "\n"
	if len(p.consts) > 0 {
		src += strings.Join(p.consts, "\n") + "\n"
	}
	src += defs
	prog := cBlock(p.body...)
	src += stmtText(prog, "")
	// the del node keeps its `after` text in S only for printing
	var strip func(n *cN)
	strip = func(n *cN) {
		if n.K == "del" || n.K == "deco" {
			n.S = ""
		}
		for _, a := range n.A {
			strip(a)
		}
	}
	strip(prog)
	return c01Shape{Name: name, Quick: quick, Src: src, Lit: prog.lit(), Types: p.mtypes, Pats: p.pats}
}

var c01IntOps = []string{"+", "-", "*", "/", "%", "**", "<<", ">>", "&", "|", "^"}

func opName(op string) string {
	return map[string]string{"+": "add", "-": "sub", "*": "mul", "/": "div", "%": "mod", "**": "pow", "<<": "shl", ">>": "shr", "&": "and", "|": "or", "^": "xor",
		"<": "lt", "<=": "le", ">": "gt", ">=": "ge", "==": "eq", "!=": "ne"}[op]
}

func c01Shapes() []c01Shape {
	var out []c01Shape
	quickPairs := map[string]bool{"add-mul": true, "mul-add": true, "sub-sub": true, "div-mul": true, "shl-add": true, "add-shl": true, "and-add": true, "or-and": true, "mod-pow": true, "sub-div": true, "xor-shr": true}
	// F1: operator levels and associativity: g = x op1 $a op2 3, both trees
	for _, o1 := range c01IntOps {
		for _, o2 := range c01IntOps {
			for _, left := range []bool{true, false} {
				p := &c01Prog{}
				g := p.metric("gauge g", "g", mtInt)
				x := p.metric("gauge x", "x", mtInt)
				pt, a := p.pat("int")
				var e *cN
				side := "l"
				if left {
					e = cBin(o2, cBin(o1, p.mread(x, ctInt), a), cInt(3))
				} else {
					e = cBin(o1, p.mread(x, ctInt), cBin(o2, a, cInt(3)))
					side = "r"
				}
				p.body = []*cN{cCond(pt, cBlock(p.set(g, "=", nil, e)), nil)}
				key := opName(o1) + "-" + opName(o2)
				out = append(out, p.shape("prec-"+key+"-"+side, quickPairs[key], ""))
			}
		}
	}
	// F1b: unary ~ against binary operators
	for _, o := range []string{"+", "*", "&", "<<"} {
		p := &c01Prog{}
		g := p.metric("gauge g", "g", mtInt)
		x := p.metric("gauge x", "x", mtInt)
		pt, a := p.pat("int")
		p.body = []*cN{cCond(pt, cBlock(p.set(g, "=", nil, cBin(o, cNeg(p.mread(x, ctInt)), a))), nil)}
		out = append(out, p.shape("neg-"+opName(o)+"-l", o == "+", ""))
		p = &c01Prog{}
		g = p.metric("gauge g", "g", mtInt)
		x = p.metric("gauge x", "x", mtInt)
		pt, a = p.pat("int")
		p.body = []*cN{cCond(pt, cBlock(p.set(g, "=", nil, cNeg(cBin(o, p.mread(x, ctInt), a)))), nil)}
		out = append(out, p.shape("neg-"+opName(o)+"-r", o == "&", ""))
	}
	// F2: comparisons as conditions, int / float / string / mixed
	for _, op := range []string{"<", "<=", ">", ">=", "==", "!="} {
		p := &c01Prog{}
		c := p.metric("counter c", "c", mtInt)
		x := p.metric("gauge x", "x", mtInt)
		pt, a := p.pat("int")
		p.body = []*cN{cCond(cAnd(pt, cCmp(op, cBin("+", a, cInt(1)), cBin("*", p.mread(x, ctInt), cInt(2)))), cBlock(p.inc(c)), nil)}
		out = append(out, p.shape("cmp-int-"+opName(op), op == "<" || op == "!=", ""))

		p = &c01Prog{}
		c = p.metric("counter c", "c", mtInt)
		pt, a = p.pat("float")
		p.body = []*cN{cCond(cAnd(pt, cCmp(op, a, cFloat(2.5))), cBlock(p.inc(c)), nil)}
		out = append(out, p.shape("cmp-float-"+opName(op), op == ">=", ""))

		p = &c01Prog{}
		c = p.metric("counter c", "c", mtInt)
		pt, a = p.pat("word")
		p.body = []*cN{cCond(cAnd(pt, cCmp(op, a, cStr("m"))), cBlock(p.inc(c)), nil)}
		out = append(out, p.shape("cmp-str-"+opName(op), op == "==", ""))

		p = &c01Prog{}
		c = p.metric("counter c", "c", mtInt)
		pt, a = p.pat("int")
		p.body = []*cN{cCond(cAnd(pt, cCmp(op, a, cFloat(4.5))), cBlock(p.inc(c)), nil)}
		out = append(out, p.shape("cmp-mixed-"+opName(op), op == "<=", ""))
	}
	// F3: && and || (one level, left associative, short circuit)
	{
		mk := func(name string, quick bool, f func(p *c01Prog, c int) *cN) {
			p := &c01Prog{}
			c := p.metric("counter c", "c", mtInt)
			cond := f(p, c)
			p.body = []*cN{cCond(cond, cBlock(p.inc(c)), nil)}
			out = append(out, p.shape(name, quick, ""))
		}
		mk("logic-and-or", true, func(p *c01Prog, c int) *cN {
			x := p.metric("gauge x", "x", mtInt)
			pt, a := p.constPat("int")
			return cOr(cAnd(pt, cCmp(">", a, cInt(5))), cCmp("==", p.mread(x, ctInt), cInt(3)))
		})
		mk("logic-or-and", true, func(p *c01Prog, c int) *cN {
			x := p.metric("gauge x", "x", mtInt)
			pt, a := p.constPat("int")
			// (x == 3 || P1) && $a < 7: $a belongs to a pattern that may not have been tried
			return cAnd(cOr(cCmp("==", p.mread(x, ctInt), cInt(3)), pt), cCmp("<", a, cInt(7)))
		})
		mk("logic-or-paren", false, func(p *c01Prog, c int) *cN {
			x := p.metric("gauge x", "x", mtInt)
			pt, a := p.constPat("int")
			return cAnd(pt, cOr(cCmp(">", a, cInt(5)), cCmp("==", p.mread(x, ctInt), cInt(3))))
		})
		mk("logic-and-cmp-bit", false, func(p *c01Prog, c int) *cN {
			pt, a := p.pat("int")
			return cAnd(pt, cCmp("==", cBin("+", a, cInt(1)), cInt(8)))
		})
		for _, neg := range []bool{false, true} {
			p := &c01Prog{}
			c := p.metric("counter c", "c", mtInt)
			pt, a := p.pat("word")
			p.body = []*cN{cCond(pt, cBlock(cCond(p.smatch(a, neg), cBlock(p.inc(c)), nil)), nil)}
			name := "logic-smatch"
			if neg {
				name = "logic-nsmatch"
			}
			out = append(out, p.shape(name, !neg, ""))
		}
	}
	// F3b: two =~ with the same pattern text on different strings
	{
		p := &c01Prog{}
		both := p.metric("counter both", "both", mtInt)
		first := p.metric("counter first by n", "first", mtInt)
		pt, a := p.pat("word")
		pt2, bb := p.pat("word")
		re := `^(?P<n>\d+)$`
		m1, n1 := p.smatchCap(a, re, "n")
		m2, _ := p.smatchCap(bb, re, "n")
		p.body = []*cN{cCond(pt, cBlock(cCond(pt2, cBlock(
			cCond(m1, cBlock(cCond(m2, cBlock(p.inc(both)), nil), p.inc(first, n1)), nil)), nil)), nil)}
		out = append(out, p.shape("smatch-same-text-different-strings", true, ""))
	}
	// F4: scoping of nested conditionals, else and otherwise
	{
		type sc struct {
			name  string
			quick bool
			nc    int // counters used
			f     func(p *c01Prog, cs []int, pt []*cN) []*cN
		}
		inc := func(p *c01Prog, c int) *cN { return cBlock(p.inc(c)) }
		list := []sc{
			{"scope-otherwise", true, 2, func(p *c01Prog, cs []int, pt []*cN) []*cN {
				return []*cN{cCond(pt[0], inc(p, cs[0]), nil), cOtherwise(inc(p, cs[1]))}
			}},
			{"scope-two-then-otherwise", true, 3, func(p *c01Prog, cs []int, pt []*cN) []*cN {
				return []*cN{cCond(pt[0], inc(p, cs[0]), nil), cCond(pt[1], inc(p, cs[1]), nil), cOtherwise(inc(p, cs[2]))}
			}},
			{"scope-nested-otherwise", true, 3, func(p *c01Prog, cs []int, pt []*cN) []*cN {
				return []*cN{cCond(pt[0], cBlock(cCond(pt[1], inc(p, cs[0]), nil), cOtherwise(inc(p, cs[1]))), nil), cOtherwise(inc(p, cs[2]))}
			}},
			{"scope-else-then-otherwise", true, 3, func(p *c01Prog, cs []int, pt []*cN) []*cN {
				return []*cN{cCond(pt[0], inc(p, cs[0]), inc(p, cs[1])), cOtherwise(inc(p, cs[2]))}
			}},
			{"scope-otherwise-in-else", true, 3, func(p *c01Prog, cs []int, pt []*cN) []*cN {
				return []*cN{cCond(pt[0], inc(p, cs[0]), cBlock(cCond(pt[1], inc(p, cs[1]), nil), cOtherwise(inc(p, cs[2]))))}
			}},
			{"scope-cond-in-else-then-otherwise", true, 3, func(p *c01Prog, cs []int, pt []*cN) []*cN {
				return []*cN{cCond(pt[0], inc(p, cs[0]), cBlock(cCond(pt[1], inc(p, cs[1]), nil))), cOtherwise(inc(p, cs[2]))}
			}},
			{"scope-two-otherwise", true, 3, func(p *c01Prog, cs []int, pt []*cN) []*cN {
				return []*cN{cOtherwise(inc(p, cs[0])), cOtherwise(inc(p, cs[1])), cCond(pt[0], inc(p, cs[2]), nil)}
			}},
			{"scope-otherwise-first-in-block", false, 2, func(p *c01Prog, cs []int, pt []*cN) []*cN {
				return []*cN{cCond(pt[0], inc(p, cs[0]), nil), cCond(pt[1], cBlock(cOtherwise(inc(p, cs[1]))), nil)}
			}},
			{"scope-bare-otherwise-in-else", true, 2, func(p *c01Prog, cs []int, pt []*cN) []*cN {
				return []*cN{cCond(pt[0], inc(p, cs[0]), cBlock(cOtherwise(inc(p, cs[1]))))}
			}},
			{"scope-else-else", false, 3, func(p *c01Prog, cs []int, pt []*cN) []*cN {
				return []*cN{cCond(pt[0], inc(p, cs[0]), cBlock(cCond(pt[1], inc(p, cs[1]), inc(p, cs[2]))))}
			}},
			{"scope-nested-then-after", false, 3, func(p *c01Prog, cs []int, pt []*cN) []*cN {
				return []*cN{cCond(pt[0], cBlock(cCond(pt[1], inc(p, cs[0]), nil)), nil), cCond(pt[2], inc(p, cs[1]), nil), cOtherwise(inc(p, cs[2]))}
			}},
			{"scope-stop", true, 3, func(p *c01Prog, cs []int, pt []*cN) []*cN {
				return []*cN{cCond(pt[0], cBlock(p.inc(cs[0]), &cN{K: "stop"}, p.inc(cs[1])), nil), cCond(pt[1], inc(p, cs[2]), nil)}
			}},
		}
		for _, s := range list {
			p := &c01Prog{}
			var cs []int
			for i := 0; i < s.nc; i++ {
				cs = append(cs, p.metric(fmt.Sprintf("counter c%d", i), fmt.Sprintf("c%d", i), mtInt))
			}
			var pts []*cN
			for i := 0; i < 3; i++ {
				pt, _ := p.pat("none")
				pts = append(pts, pt)
			}
			p.body = s.f(p, cs, pts)
			out = append(out, p.shape(s.name, s.quick, ""))
		}
	}
	// F5: assignment forms, dimensions and label values
	{
		p := &c01Prog{}
		c := p.metric("counter c by k", "c", mtInt)
		pt, a := p.pat("word")
		p.body = []*cN{cCond(pt, cBlock(p.inc(c, a)), nil)}
		out = append(out, p.shape("dim-str-key", true, ""))

		p = &c01Prog{}
		c = p.metric("counter c by k", "c", mtInt)
		pt, a = p.pat("int")
		p.body = []*cN{cCond(pt, cBlock(p.set(c, "+=", cKeys(a), a)), nil)}
		out = append(out, p.shape("dim-int-key-addassign", true, ""))

		p = &c01Prog{}
		g := p.metric("gauge g by k, j", "g", mtInt)
		pt, a = p.pat("int")
		pt2, b := p.pat("word")
		p.body = []*cN{cCond(pt, cBlock(cCond(pt2, cBlock(p.set(g, "=", cKeys(b, cBin("+", a, cInt(1))), cBin("*", a, cInt(2)))), nil)), nil)}
		out = append(out, p.shape("dim-two-keys-expr", true, ""))

		p = &c01Prog{}
		g = p.metric("gauge g by k", "g", mtFloat)
		pt, a = p.pat("float")
		p.body = []*cN{cCond(pt, cBlock(p.set(g, "=", cKeys(a), a)), nil)}
		out = append(out, p.shape("dim-float-key", false, ""))

		p = &c01Prog{}
		g = p.metric("gauge g", "g", mtInt)
		pt, _ = p.pat("none")
		pt2, _ = p.pat("none")
		p.body = []*cN{cCond(pt, cBlock(p.set(g, "++", nil, nil)), nil), cCond(pt2, cBlock(p.set(g, "--", nil, nil)), nil)}
		out = append(out, p.shape("incdec", true, ""))

		p = &c01Prog{}
		f := p.metric("gauge f", "f", mtFloat)
		pt, a = p.pat("float")
		pt2, b = p.pat("int")
		p.body = []*cN{cCond(pt, cBlock(cCond(pt2, cBlock(p.set(f, "=", nil, cBin("+", cBin("*", a, cFloat(2.5)), b))), nil)), nil)}
		out = append(out, p.shape("float-arith-mixed", true, ""))

		for _, op := range []string{"-", "/", "%", "**"} {
			p = &c01Prog{}
			f = p.metric("gauge f", "f", mtFloat)
			pt, a = p.pat("float")
			p.body = []*cN{cCond(pt, cBlock(p.set(f, "=", nil, cBin(op, a, cFloat(1.5)))), nil)}
			out = append(out, p.shape("float-"+opName(op), op == "/", ""))
		}

		p = &c01Prog{}
		t := p.metric("text t", "t", mtString)
		pt, a = p.pat("nonspace")
		p.body = []*cN{cCond(pt, cBlock(p.set(t, "=", nil, a)), nil)}
		out = append(out, p.shape("text-assign", true, ""))

		p = &c01Prog{}
		t = p.metric("text t", "t", mtString)
		pt, a = p.pat("word")
		p.body = []*cN{cCond(pt, cBlock(p.set(t, "=", nil, cBin("+", a, cStr("-x")))), nil)}
		out = append(out, p.shape("text-concat", false, ""))

		// a string joined with an integer literal, on either side, also as a label
		p = &c01Prog{}
		t = p.metric("text t", "t", mtString)
		u := p.metric("text u", "u", mtString)
		c = p.metric("counter c by k", "c", mtInt)
		pt, a = p.pat("word")
		p.body = []*cN{cCond(pt, cBlock(p.set(t, "=", nil, cBin("+", a, cInt(0))), p.set(u, "=", nil, cBin("+", cInt(0), a)), p.inc(c, cBin("+", a, cInt(1)))), nil)}
		out = append(out, p.shape("text-concat-int", true, ""))
	}
	// F6: builtins and conversions
	{
		mkI := func(name string, quick bool, class string, f func(p *c01Prog, a *cN) *cN) {
			p := &c01Prog{}
			g := p.metric("gauge g", "g", mtInt)
			pt, a := p.pat(class)
			p.body = []*cN{cCond(pt, cBlock(p.set(g, "=", nil, f(p, a))), nil)}
			out = append(out, p.shape(name, quick, ""))
		}
		mkI("builtin-len", true, "word", func(p *c01Prog, a *cN) *cN { return cCall("len", ctInt, a) })
		mkI("builtin-strtol16", true, "word", func(p *c01Prog, a *cN) *cN { return cCall("strtol", ctInt, a, cInt(16)) })
		mkI("builtin-strtol8", false, "word", func(p *c01Prog, a *cN) *cN { return cCall("strtol", ctInt, a, cInt(8)) })
		mkI("builtin-int-of-string", true, "nonspace", func(p *c01Prog, a *cN) *cN { return cCall("int", ctInt, a) })
		// (int(float) is not offered: the compiler has no float-to-int
		// conversion and refuses it, as Language.md allows: "If the type of x
		// cannot be converted to an integer, a compile error is triggered")
		mkI("builtin-len-tolower", false, "word", func(p *c01Prog, a *cN) *cN { return cBin("+", cCall("len", ctInt, cCall("tolower", ctString, a)), cInt(1)) })
		mkI("builtin-timestamp", true, "none", func(p *c01Prog, a *cN) *cN { return cCall("timestamp", ctInt) })

		p := &c01Prog{}
		f := p.metric("gauge f", "f", mtFloat)
		pt, a := p.pat("nonspace")
		p.body = []*cN{cCond(pt, cBlock(p.set(f, "=", nil, cCall("float", ctFloat, a))), nil)}
		out = append(out, p.shape("builtin-float-of-string", true, ""))

		p = &c01Prog{}
		f = p.metric("gauge f", "f", mtFloat)
		pt, a = p.pat("int")
		p.body = []*cN{cCond(pt, cBlock(p.set(f, "=", nil, cCall("float", ctFloat, a))), nil)}
		out = append(out, p.shape("builtin-float-of-int", false, ""))

		mkS := func(name string, quick bool, class string, f func(p *c01Prog, a *cN) *cN) {
			p := &c01Prog{}
			c := p.metric("counter c by k", "c", mtInt)
			pt, a := p.pat(class)
			p.body = []*cN{cCond(pt, cBlock(p.inc(c, f(p, a))), nil)}
			out = append(out, p.shape(name, quick, ""))
		}
		mkS("builtin-tolower", true, "word", func(p *c01Prog, a *cN) *cN { return cCall("tolower", ctString, a) })
		mkS("builtin-subst", true, "word", func(p *c01Prog, a *cN) *cN { return cCall("subst", ctString, cStr("a"), cStr("bb"), a) })
		mkS("builtin-string-of-int", true, "int", func(p *c01Prog, a *cN) *cN { return cCall("string", ctString, cBin("+", a, cInt(1))) })
		mkS("builtin-getfilename", false, "none", func(p *c01Prog, a *cN) *cN { return cCall("getfilename", ctString) })
	}
	// F7: del, del after, decorators
	{
		p := &c01Prog{}
		c := p.metric("counter c by k", "c", mtInt)
		pt, a := p.pat("lower")
		pt2, b := p.pat("lower")
		pt3, d := p.pat("lower")
		p.body = []*cN{
			cCond(pt, cBlock(p.inc(c, a)), nil),
			cCond(pt2, cBlock(p.del(c, 0, "", b)), nil),
			cCond(pt3, cBlock(p.del(c, 3600e9, "1h", d)), nil),
		}
		out = append(out, p.shape("del-and-del-after", true, ""))

		p = &c01Prog{}
		a0 := p.metric("counter a", "a", mtInt)
		b0 := p.metric("counter b", "b", mtInt)
		c0 := p.metric("counter c", "c", mtInt)
		pt, _ = p.pat("none")
		pt2, _ = p.pat("none")
		deco := cBlock(cCond(pt, cBlock(p.inc(a0), &cN{K: "next"}, p.inc(c0)), nil))
		defs := "def deco {\n" + stmtText(deco, "  ") + "}\n"
		p.body = []*cN{{K: "deco", S: "deco", A: []*cN{deco, cBlock(cCond(pt2, cBlock(p.inc(b0)), nil))}}}
		out = append(out, p.shape("decorator-next", true, defs))
	}
	return out
}

// c01Gen compiles the shapes and renders objects, capture tables and entries.
func c01Gen(shapes []c01Shape) (map[string]string, error) {
	var ins []bridgeIn
	for _, s := range shapes {
		ins = append(ins, bridgeIn{Name: s.Name, Src: s.Src})
	}
	outs, err := runBridge(ins)
	if err != nil {
		return nil, err
	}
	var b strings.Builder
	b.WriteString(genHeader())
	for i, s := range shapes {
		o := outs[i]
		id := strings.ReplaceAll(s.Name, "-", "_")
		if o.Errors != "" {
			return nil, fmt.Errorf("VIOLATION-CANDIDATE well-typed program %s is rejected by the compiler: %s\n%s", s.Name, o.Errors, s.Src)
		}
		// which compiled regexp belongs to which pattern of the tree: the k-th
		// pattern with a given text is the k-th compiled regexp with that text
		// (if the compiler keeps fewer, the last one it has)
		seenText := map[string]int{}
		var reIndex []int
		for _, pt := range s.Pats {
			k := seenText[pt.re]
			seenText[pt.re]++
			found, last := -1, -1
			n := 0
			for ri, re := range o.Regexps {
				if re == pt.re {
					last = ri
					if n == k {
						found = ri
					}
					n++
				}
			}
			if found < 0 {
				found = last
			}
			// (-1: a pattern the shape declares but does not use)
			reIndex = append(reIndex, found)
		}
		b.WriteString(genObjectFunc("verifObj_"+id, o, nil))
		fmt.Fprintf(&b, "var verifCaps_%s = [][]int{", id)
		for _, pt := range s.Pats {
			cs, err := capClasses(pt.re)
			if err != nil {
				return nil, err
			}
			b.WriteString("{")
			for _, c := range cs {
				fmt.Fprintf(&b, "%d, ", c)
			}
			b.WriteString("}, ")
		}
		b.WriteString("}\n\n")
		fmt.Fprintf(&b, "var verifPats_%s = []rPat{", id)
		for pi, pt := range s.Pats {
			fmt.Fprintf(&b, "{%q, %d, %d}, ", pt.re, pt.subj, reIndex[pi])
		}
		b.WriteString("}\n\n")
		ts := "[]int{"
		for _, t := range s.Types {
			ts += fmt.Sprintf("%d, ", t)
		}
		ts += "}"
		fmt.Fprintf(&b, "func HarnessVM01_%s() { vmCheckRef(verifObj_%s, verifCaps_%s, %q, %s, %s, verifPats_%s) }\n\n", id, id, id, s.Name, s.Lit, ts, id)
	}
	return map[string]string{"vm_objects.go": b.String()}, nil
}

func init() {
	as := append(append([]string{
		"program shapes are enumerated from a typed grammar written for this check (engine/checks_c01.go), not symbolic; the solver decides all captures, match outcomes and metric values of every shape",
		"the oracle is a reference interpreter of the intended tree written from docs/Language.md (harness/vm/c01.go); where the reference is silent its header lists the choice made (operator levels of parser.y, wrap-around, pow via float, shift range, %d/%g label text)",
		"strconv.ParseInt is an exact engine model (<= 18 bytes); ParseFloat, math.Pow, math.Mod uninterpreted with native refinement of counterexamples",
	}, vmAssumptions...), baseAssumptions...)
	register(&CheckDef{ID: "C01", Level: "model_checking", Only: []string{"C01."}, Assumptions: as,
		Jobs: func(tier string) []JobDef {
			var shapes []c01Shape
			for _, s := range c01Shapes() {
				if tier == "thorough" || s.Quick {
					shapes = append(shapes, s)
				}
			}
			gen, err := c01Gen(shapes)
			if err != nil {
				return []JobDef{{Name: "bridge-failed: " + err.Error(), Pkg: vmPkg, Dir: "internal/runtime/vm", Entry: "missing"}}
			}
			var jobs []JobDef
			for _, s := range shapes {
				id := strings.ReplaceAll(s.Name, "-", "_")
				jobs = append(jobs, JobDef{Name: "VM01-" + s.Name, Pkg: vmPkg, Dir: "internal/runtime/vm",
					Harness: []string{"vm/vmlib.go", "vm/c01.go"}, GenFiles: gen,
					EngineOnly: []string{"vm/vm_engine.go"}, NativeOnly: []string{"vm/vm_native.go"},
					Entry: "HarnessVM01_" + id, Substs: vmSubsts, Params: p("caplen", 2),
					Bound: "program: " + strings.ReplaceAll(strings.TrimSpace(s.Src), "\n", " ; ") + " -- one line; every pattern independently matches or not; captures 1..2 symbolic bytes of the group's class; every metric holds an arbitrary value (dimensioned: zero or one label set)"})
			}
			return jobs
		},
		Outside: []string{"program shapes outside the enumerated family (engine/checks_c01.go)", "captures longer than 2 bytes", "sequences of more than one line (C05 shows a line's effect depends on earlier lines only through metrics, which are arbitrary here)", "histograms, timers, limit, hidden export", "the regexp engine itself"}})
}
