package main

import (
	"fmt"
	"go/types"

	"golang.org/x/tools/go/ssa"
)

// Cooperative deterministic scheduler: interpreted goroutines are real Go
// goroutines but exactly one holds the baton at any time.  The running
// goroutine continues until it blocks or exits; then the next runnable one in
// id order runs.  This explores ONE schedule; no claim about other
// interleavings is derived from it.

type G struct {
	id     int
	resume chan struct{}
	done   bool
	kill   bool
	wait   func() bool // nil = runnable
	why    string
	low    bool // delayed (vDelay): runs only when nothing else can, or after vRelease
	exited chan struct{}
	// locks held (for the race recorder): lock cell -> 1 read / 2 write mode;
	// parent and the parent's locks at spawn time
	locks   map[*value]int
	parent  *G
	inherit map[*value]int
}

type killSig struct{}

type lockState struct {
	readers int
	writer  bool
	// writers blocked in Lock: as in sync.RWMutex, a pending Lock keeps new
	// readers out (which is what makes recursive read locking a deadlock)
	writersWaiting int
}

func (e *Exec) initSched() {
	main := &G{id: 0, resume: make(chan struct{}, 1)}
	e.gs = []*G{main}
	e.cur = main
	e.locks = map[*value]*lockState{}
	e.pending = nil
}

func (e *Exec) spawn(run func()) {
	g := &G{id: len(e.gs), resume: make(chan struct{}, 1), exited: make(chan struct{})}
	if e.cur != nil {
		g.parent = e.cur
		g.inherit = map[*value]int{}
		for l, m := range e.cur.locks {
			g.inherit[l] = m
		}
	}
	e.gs = append(e.gs, g)
	go func() {
		defer close(g.exited)
		<-g.resume
		defer func() {
			g.done = true
			if r := recover(); r != nil {
				if _, ok := r.(killSig); ok {
					return
				}
				// propagate to the main goroutine
				if gp, ok := r.(goPanic); ok {
					r = goPanic{fmt.Sprintf("panic in goroutine %d: %s", g.id, fmtVal(gp.v))}
				}
				e.pending = r
				e.gs[0].wait = nil
				e.switchTo(e.gs[0], g, true)
				return
			}
			e.handOff(g)
		}()
		if g.kill {
			panic(killSig{})
		}
		run()
	}()
}

// switchTo passes the baton from 'from' to 'to'; if final, 'from' does not wait.
func (e *Exec) switchTo(to, from *G, final bool) {
	e.cur = to
	to.resume <- struct{}{}
	if final {
		return
	}
	<-from.resume
	if from.kill {
		panic(killSig{})
	}
	if from.id == 0 && e.pending != nil {
		p := e.pending
		e.pending = nil
		panic(p)
	}
}

func (g *G) runnable() bool { return !g.done && !g.low && (g.wait == nil || g.wait()) }

// next picks the next runnable goroutine after g in id order (excluding g).
func (e *Exec) next(g *G) *G {
	n := len(e.gs)
	for i := 1; i < n; i++ {
		c := e.gs[(g.id+i)%n]
		if c.runnable() {
			return c
		}
	}
	if e.inQuiesce {
		return nil
	}
	// nothing else can run: a delayed goroutine gets its turn now
	for i := 1; i < n; i++ {
		c := e.gs[(g.id+i)%n]
		if c.low && !c.done {
			c.low = false
			if c.runnable() {
				return c
			}
		}
	}
	return nil
}

// release ends every delay (vRelease).
func (e *Exec) release() {
	for _, g := range e.gs {
		g.low = false
	}
}

// delay: the current goroutine steps aside until nothing else can run or the
// harness releases it (vDelay).
func (e *Exec) delay() {
	g := e.cur
	if g.id == 0 {
		return
	}
	g.low = true
	g.why = "delayed"
	if n := e.next(g); n != nil {
		e.switchTo(n, g, false)
	}
	g.low = false
}

// handOff is called by an exiting goroutine.
func (e *Exec) handOff(g *G) {
	if n := e.next(g); n != nil {
		e.switchTo(n, g, true)
		return
	}
	// nobody runnable: main is blocked forever
	e.pending = deadlock{e.describeBlocked()}
	e.gs[0].wait = nil
	e.switchTo(e.gs[0], g, true)
}

// block suspends the current goroutine until cond() holds.
func (e *Exec) block(why string, cond func() bool) {
	g := e.cur
	for !cond() {
		g.wait, g.why = cond, why
		n := e.next(g)
		if n == nil {
			who := e.describeBlocked()
			g.wait = nil
			if g.id == 0 {
				panic(deadlock{who})
			}
			e.pending = deadlock{who}
			e.gs[0].wait = nil
			g.wait = func() bool { return false }
			e.switchTo(e.gs[0], g, false)
			continue
		}
		e.switchTo(n, g, false)
	}
	g.wait = nil
}

// yield lets every other runnable goroutine run once before continuing.
func (e *Exec) yield() {
	g := e.cur
	if n := e.next(g); n != nil {
		e.switchTo(n, g, false)
	}
}

type deadlock struct{ who string }

func (e *Exec) describeBlocked() string {
	s := ""
	for _, g := range e.gs {
		if !g.done && g.wait != nil {
			s += fmt.Sprintf("g%d:%s ", g.id, g.why)
		}
	}
	return s
}

// blockedOthers counts goroutines other than main that have not exited.
func (e *Exec) blockedOthers() int {
	n := 0
	for _, g := range e.gs[1:] {
		if !g.done {
			n++
		}
	}
	return n
}

// quiesce runs all other goroutines until none is runnable.
func (e *Exec) quiesce() {
	g := e.cur
	e.inQuiesce = true
	defer func() { e.inQuiesce = false }()
	for {
		n := e.next(g)
		if n == nil {
			return
		}
		e.switchTo(n, g, false)
	}
}

// killAll terminates leftover goroutines at the end of a path.
func (e *Exec) killAll() {
	for _, g := range e.gs[1:] {
		if !g.done {
			g.kill = true
			g.resume <- struct{}{}
		}
		<-g.exited
	}
}

func (e *Exec) lockOf(p *value) *lockState {
	l := e.locks[p]
	if l == nil {
		l = &lockState{}
		e.locks[p] = l
	}
	return l
}

// channel operations with blocking semantics
func (e *Exec) chanSend(ch *channel, v value) {
	if ch == nil {
		e.block("send on nil chan", func() bool { return false })
	}
	if ch.closed {
		panic(goPanic{"send on closed channel"})
	}
	if ch.cap > 0 {
		e.block(fmt.Sprintf("chan%d send (full)", ch.id), func() bool { return len(ch.buf) < ch.cap || ch.closed })
		if ch.closed {
			panic(goPanic{"send on closed channel"})
		}
		ch.buf = append(ch.buf, v)
		return
	}
	// unbuffered: wait for the slot, deposit, wait until taken
	e.block(fmt.Sprintf("chan%d send (slot)", ch.id), func() bool { return !ch.hasPending || ch.closed })
	if ch.closed {
		panic(goPanic{"send on closed channel"})
	}
	ch.pending, ch.hasPending = v, true
	myTicket := ch.ticket
	e.block(fmt.Sprintf("chan%d send", ch.id), func() bool { return ch.ticket != myTicket || ch.closed })
	if ch.ticket == myTicket && ch.closed {
		panic(goPanic{"send on closed channel"})
	}
}

func (e *Exec) chanReady(ch *channel) bool {
	return ch != nil && (len(ch.buf) > 0 || ch.hasPending || ch.closed)
}

func (e *Exec) chanTake(ch *channel) (value, bool) {
	if len(ch.buf) > 0 {
		v := ch.buf[0]
		ch.buf = ch.buf[1:]
		return v, true
	}
	if ch.hasPending {
		v := ch.pending
		ch.pending, ch.hasPending = nil, false
		ch.ticket++
		return v, true
	}
	return nil, false
}

func (e *Exec) chanRecv(ch *channel) (value, bool) {
	if ch == nil {
		e.block("recv on nil chan", func() bool { return false })
	}
	e.block(fmt.Sprintf("chan%d recv", ch.id), func() bool { return e.chanReady(ch) })
	return e.chanTake(ch)
}

// selectStmt models select: the first ready case in source order is taken
// (Go picks uniformly at random among ready cases; one choice is explored).
func (e *Exec) selectStmt(fr *frame, in *ssa.Select) value {
	type st struct {
		ch   *channel
		send bool
		v    value
	}
	states := make([]st, len(in.States))
	for i, s := range in.States {
		ch, _ := fr.get(s.Chan).(*channel)
		states[i] = st{ch: ch, send: s.Dir == 1}
		if states[i].send {
			states[i].v = fr.get(s.Send)
		}
	}
	ready := func() int {
		for i, s := range states {
			if s.ch == nil {
				continue
			}
			if s.send {
				if s.ch.closed {
					return i
				}
				if s.ch.cap > 0 && len(s.ch.buf) < s.ch.cap {
					return i
				}
				if s.ch.cap == 0 && !s.ch.hasPending && e.hasReceiver(s.ch) {
					return i
				}
			} else if e.chanReady(s.ch) {
				return i
			}
		}
		return -1
	}
	idx := ready()
	if idx < 0 {
		if !in.Blocking {
			return e.selectResult(in, -1, false, nil)
		}
		e.block("select", func() bool { return ready() >= 0 })
		idx = ready()
	}
	s := states[idx]
	if s.send {
		e.chanSend(s.ch, s.v)
		return e.selectResult(in, idx, false, nil)
	}
	v, ok := e.chanTake(s.ch)
	return e.selectResult(in, idx, ok, v)
}

// hasReceiver reports whether some goroutine is blocked receiving on ch.
func (e *Exec) hasReceiver(ch *channel) bool {
	want := fmt.Sprintf("chan%d recv", ch.id)
	for _, g := range e.gs {
		if !g.done && g.wait != nil && g.why == want {
			return true
		}
	}
	return false
}

func (e *Exec) selectResult(in *ssa.Select, idx int, ok bool, v value) value {
	r := tuple{mkI64(int64(idx)), Bool{C: ok}}
	for i, s := range in.States {
		if s.Dir == 2 { // recv
			if i == idx && ok {
				r = append(r, v)
			} else {
				r = append(r, zero(s.Chan.Type().Underlying().(*types.Chan).Elem()))
			}
		}
	}
	return r
}
