package main

import (
	"fmt"
	"sort"
	"strings"

	"golang.org/x/tools/go/ssa"
)

// C11: data races between pairs of operations on shared metric state.
//
// The two operations are executed one after the other on the same state; the
// executor records every load, store and atomic access to the cells that made
// up the shared state before the pair started (vRaceShared collects them),
// together with the locks the accessing goroutine holds.  For every pair of
// accesses to one cell, one from each operation, at least one a write and not
// both atomic, the solver is asked for a schedule of the two operations' lock
// and access events in which the two accesses are adjacent; mutual exclusion
// of conflicting critical sections is the only ordering between the two
// operations.  sat = a data race, with the schedule as the witness; the
// native replay runs the two operations concurrently under the race detector.

type raceAccess struct {
	cell   interface{} // *value or *omap
	write  bool
	atomic bool
	g      int
	locks  map[*value]int // effective locks: 1 = read mode, 2 = write mode
	fn     string
	seq    int
}

type raceState struct {
	on     bool
	run    int
	shared map[interface{}]string
	names  map[*value]string
	log    [2][]raceAccess
	events [2][]raceEvent
	seq    int
	lastMsg string
}

// raceEvent is a lock acquire/release of the operation's goroutines, in the
// order of the recorded run.
type raceEvent struct {
	lock    *value
	mode    int // 1 R, 2 W
	acquire bool
	seq     int
}

const (
	lockR = 1
	lockW = 2
)

func (e *Exec) raceHeld() map[*value]int {
	out := map[*value]int{}
	g := e.cur
	for l, m := range g.locks {
		out[l] = m
	}
	// a goroutine started by the operation works under the locks its parent
	// held when it started it, for as long as the parent still holds them
	// (the parent waits for it: Collect / EmitLabelSets)
	if g.parent != nil {
		for l, m := range g.inherit {
			if cur, ok := g.parent.locks[l]; ok && cur >= m && out[l] < m {
				out[l] = m
			}
		}
	}
	return out
}

func (e *Exec) raceRecord(cell interface{}, write, atomic bool, fn string) {
	r := &e.race
	if !r.on {
		return
	}
	if _, ok := r.shared[cell]; !ok {
		return
	}
	r.seq++
	r.log[r.run] = append(r.log[r.run], raceAccess{cell: cell, write: write, atomic: atomic, g: e.cur.id, locks: e.raceHeld(), fn: fn, seq: r.seq})
}

func (e *Exec) raceLoad(p *value, fn *ssa.Function) {
	if e.race.on {
		e.raceRecord(p, false, false, fn.String())
	}
}

// raceStore records a store; a struct store writes every field.
func (e *Exec) raceStore(p *value, fn *ssa.Function) {
	if !e.race.on {
		return
	}
	e.raceRecord(p, true, false, fn.String())
	if st, ok := (*p).(structure); ok {
		for i := range st {
			e.raceStore(&st[i], fn)
		}
	}
}

func (e *Exec) raceLock(l *value, mode int, acquire bool) {
	g := e.cur
	if g.locks == nil {
		g.locks = map[*value]int{}
	}
	if acquire {
		g.locks[l] = mode
	} else {
		delete(g.locks, l)
	}
	r := &e.race
	if r.on {
		r.seq++
		r.events[r.run] = append(r.events[r.run], raceEvent{lock: l, mode: mode, acquire: acquire, seq: r.seq})
	}
}

// raceCollect walks the heap from v and registers every cell found.
func (e *Exec) raceCollect(v value, name string, seen map[interface{}]bool, depth int) {
	if depth > 40 {
		return
	}
	r := &e.race
	switch x := v.(type) {
	case *value:
		if x == nil || seen[x] {
			return
		}
		seen[x] = true
		if _, ok := r.shared[x]; !ok {
			r.shared[x] = name
		}
		e.raceCollect(*x, name, seen, depth+1)
	case structure:
		for i := range x {
			p := &x[i]
			if !seen[p] {
				seen[p] = true
				n := name
				if nm, ok := r.names[p]; ok {
					n = nm
				} else {
					n = fmt.Sprintf("%s.f%d", name, i)
				}
				r.shared[p] = n
				e.raceCollect(x[i], n, seen, depth+1)
			}
		}
	case array:
		for i := range x {
			p := &x[i]
			if !seen[p] {
				seen[p] = true
				r.shared[p] = fmt.Sprintf("%s[%d]", name, i)
				e.raceCollect(x[i], name, seen, depth+1)
			}
		}
	case []value:
		full := x[:cap(x)]
		for i := range full {
			p := &full[i]
			if !seen[p] {
				seen[p] = true
				r.shared[p] = fmt.Sprintf("%s[%d]", name, i)
				e.raceCollect(full[i], fmt.Sprintf("%s[%d]", name, i), seen, depth+1)
			}
		}
	case *omap:
		if x == nil || seen[x] {
			return
		}
		seen[x] = true
		r.shared[x] = name + "(map)"
		for i := range x.e {
			e.raceCollect(x.e[i].k, name+"(key)", seen, depth+1)
			e.raceCollect(x.e[i].v, name+"(elem)", seen, depth+1)
		}
	case iface:
		e.raceCollect(x.v, name, seen, depth+1)
	case tuple:
		for i := range x {
			e.raceCollect(x[i], name, seen, depth+1)
		}
	}
}

func lockName(locks map[*value]int, names map[*value]string) string {
	var s []string
	for l, m := range locks {
		n := names[l]
		if n == "" {
			n = fmt.Sprintf("%p", l)
		}
		if m == lockW {
			s = append(s, n+":W")
		} else {
			s = append(s, n+":R")
		}
	}
	sort.Strings(s)
	return "{" + strings.Join(s, ",") + "}"
}

// protected: is there a lock both accesses hold with at least one in write mode?
func raceProtected(a, b raceAccess) bool {
	for l, ma := range a.locks {
		if mb, ok := b.locks[l]; ok && (ma == lockW || mb == lockW) {
			return true
		}
	}
	return false
}

// raceBase declares one integer timestamp per recorded event of both runs and
// asserts what every schedule must respect: each run's own order, mutual
// exclusion of conflicting critical sections, and - because the run executed
// second saw the first one's effects - that every read of the second run which
// returned a value written by the first run comes after that write.
func (e *Exec) raceBase() (func(raceAccess) string, bool) {
	r := &e.race
	ts := func(seq int) string { return fmt.Sprintf("t%d", seq) }
	type item struct {
		seq int
		ev  *raceEvent
	}
	type cs struct {
		lock     *value
		mode     int
		acq, rel string
	}
	var sections [2][]cs
	var names []string
	for run := 0; run < 2; run++ {
		var items []item
		for i := range r.events[run] {
			items = append(items, item{r.events[run][i].seq, &r.events[run][i]})
		}
		for i := range r.log[run] {
			items = append(items, item{r.log[run][i].seq, nil})
		}
		sort.Slice(items, func(i, j int) bool { return items[i].seq < items[j].seq })
		open := map[*value]*cs{}
		prev := ""
		for _, it := range items {
			n := ts(it.seq)
			names = append(names, n)
			e.sol.Send("(declare-const " + n + " Int)")
			if prev != "" {
				e.sol.Send("(assert (< " + prev + " " + n + "))")
			}
			prev = n
			if it.ev == nil {
				continue
			}
			if it.ev.acquire {
				open[it.ev.lock] = &cs{lock: it.ev.lock, mode: it.ev.mode, acq: n}
			} else if c := open[it.ev.lock]; c != nil {
				c.rel = n
				sections[run] = append(sections[run], *c)
				delete(open, it.ev.lock)
			}
		}
		for _, c := range open {
			n := fmt.Sprintf("tend%d_%p", run, c.lock)
			names = append(names, n)
			e.sol.Send("(declare-const " + n + " Int)")
			if prev != "" {
				e.sol.Send("(assert (< " + prev + " " + n + "))")
			}
			c.rel = n
			sections[run] = append(sections[run], *c)
		}
	}
	if len(names) == 0 {
		return nil, false
	}
	for _, ca := range sections[0] {
		for _, cb := range sections[1] {
			if ca.lock == cb.lock && (ca.mode == lockW || cb.mode == lockW) {
				e.sol.Send(fmt.Sprintf("(assert (or (< %s %s) (< %s %s)))", ca.rel, cb.acq, cb.rel, ca.acq))
			}
		}
	}
	// reads-from across the runs
	first, second := 0, 1
	if len(r.log[0]) > 0 && len(r.log[1]) > 0 && r.log[1][0].seq < r.log[0][0].seq {
		first, second = 1, 0
	}
	lastWrite := map[interface{}]int{} // cell -> seq of the latest write so far (either run), with owner
	owner := map[int]int{}
	var all []raceAccess
	all = append(all, r.log[0]...)
	all = append(all, r.log[1]...)
	runOf := map[int]int{}
	for _, x := range r.log[0] {
		runOf[x.seq] = 0
	}
	for _, x := range r.log[1] {
		runOf[x.seq] = 1
	}
	sort.Slice(all, func(i, j int) bool { return all[i].seq < all[j].seq })
	for _, x := range all {
		if x.write {
			lastWrite[x.cell] = x.seq
			owner[x.seq] = runOf[x.seq]
			continue
		}
		if runOf[x.seq] != second {
			continue
		}
		if w, ok := lastWrite[x.cell]; ok && owner[w] == first {
			e.sol.Send(fmt.Sprintf("(assert (< %s %s))", ts(w), ts(x.seq)))
		}
	}
	if len(names) > 1 {
		e.sol.Send("(assert (distinct " + strings.Join(names, " ") + "))")
	}
	return func(x raceAccess) string { return ts(x.seq) }, true
}

// raceAnalyse reports the first conflicting pair of accesses for which the
// solver finds a schedule that makes them adjacent.
func (e *Exec) raceAnalyse() (bool, string) {
	r := &e.race
	byCell := map[interface{}][]raceAccess{}
	for _, b := range r.log[1] {
		byCell[b.cell] = append(byCell[b.cell], b)
	}
	e.sol.Send("(push 1)")
	defer e.sol.Send("(pop 1)")
	name, ok := e.raceBase()
	if !ok {
		return false, ""
	}
	if e.sol.Check() != "sat" {
		e.incon("the recorded runs admit no schedule at all (race encoding)")
		return false, ""
	}
	checked := map[string]bool{}
	for _, a := range r.log[0] {
		for _, b := range byCell[a.cell] {
			if !a.write && !b.write {
				continue
			}
			if a.atomic && b.atomic {
				continue
			}
			key := fmt.Sprintf("%p|%v%v%v%v|%s|%s|%s|%s", a.cell, a.write, b.write, a.atomic, b.atomic, a.fn, b.fn, lockName(a.locks, nil), lockName(b.locks, nil))
			if checked[key] {
				continue
			}
			checked[key] = true
			e.st.RaceQueries++
			ta, tb := name(a), name(b)
			e.sol.Send("(push 1)")
			e.sol.Send(fmt.Sprintf("(assert (or (= (+ %s 1) %s) (= (+ %s 1) %s)))", ta, tb, tb, ta))
			res := e.sol.Check()
			wit := ""
			if res == "sat" {
				wit = fmt.Sprintf("%s=%s %s=%s", ta, e.sol.GetValue(ta), tb, e.sol.GetValue(tb))
			}
			e.sol.Send("(pop 1)")
			if res == "unknown" {
				e.incon("solver unknown on a race schedule query")
				continue
			}
			if res != "sat" {
				continue
			}
			kind := func(x raceAccess) string {
				s := "read"
				if x.write {
					s = "write"
				}
				if x.atomic {
					s = "atomic " + s
				}
				return s
			}
			return true, fmt.Sprintf("data race on %s: %s in %s holding %s / %s in %s holding %s (schedule %s)",
				r.shared[a.cell], kind(a), shortFn(a.fn), lockName(a.locks, r.names), kind(b), shortFn(b.fn), lockName(b.locks, r.names), wit)
		}
	}
	return false, ""
}

func shortFn(s string) string {
	s = strings.ReplaceAll(s, "github.com/google/mtail/internal/", "")
	return s
}

func (e *Exec) raceIntrinsic(name string, args []value) (value, bool) {
	r := &e.race
	switch name {
	case "vRaceShared":
		if r.shared == nil {
			r.shared = map[interface{}]string{}
		}
		seen := map[interface{}]bool{}
		vs, _ := args[0].([]value)
		for i, v := range vs {
			e.raceCollect(v, fmt.Sprintf("root%d", i), seen, 0)
		}
		return nil, true
	case "vRaceRun":
		r.on = true
		r.run = int(args[0].(Int).signed())
		return nil, true
	case "vRaceEnd":
		r.on = false
		found, msg := e.raceAnalyse()
		r.log, r.events = [2][]raceAccess{}, [2][]raceEvent{}
		if found {
			r.lastMsg = msg
		} else {
			r.lastMsg = ""
		}
		return Bool{C: !found}, true
	}
	return nil, false
}
