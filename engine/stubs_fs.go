package main

import (
	"crypto/sha256"
	"go/types"
	"sort"
	"strings"

	"golang.org/x/tools/go/ssa"
)

// A model file system for the program loader (C14 loader part, C25c, C26).
// The harness manipulates it with vfsWrite / vfsRemove / vfsMkdir (natively:
// a real temporary directory); the code under test reaches it through
// os.Stat, os.ReadDir, os.OpenFile and (*os.File).Read/Close.  Entries live
// directly under one root directory; names may be symbolic strings, contents
// are concrete.

const vfsRootPath = "/vfs"

// fsInode is a file's identity and contents (bytes may be symbolic); a
// directory entry (fsNode) names an inode, an open file keeps its inode.
type fsInode struct {
	id      int
	dir     bool
	fifo    bool // a named pipe: content is the queue, writers the open writing ends
	writers int
	content []Int
	mtime   int // logical time of the last content change
}

type fsNode struct {
	name value // string or SStr
	ino  *fsInode
}

type fsModel struct {
	nodes []*fsNode
	next  int
	tick  int
}

func (e *Exec) fsTouch(i *fsInode) {
	e.fs.tick++
	i.mtime = e.fs.tick
}

func (e *Exec) fsNewInode(dir bool) *fsInode {
	e.fs.next++
	e.fs.tick++
	return &fsInode{id: e.fs.next, dir: dir, mtime: e.fs.tick}
}

func concBytes(b []Int) (string, bool) {
	out := make([]byte, len(b))
	for i, x := range b {
		if !x.isConc() {
			return "", false
		}
		out[i] = byte(x.C)
	}
	return string(out), true
}

func (e *Exec) fsLookup(name value) *fsNode {
	for _, n := range e.fs.nodes {
		if e.decide(bytesEq(strBytes(n.name), strBytes(name))) {
			return n
		}
	}
	return nil
}

// fsSplit returns the entry name for a path under the root ("" = the root).
func (e *Exec) fsSplit(path value) (value, bool) {
	bs := strBytes(path)
	root := strBytes(vfsRootPath)
	if len(bs) < len(root) || !e.decide(bytesEq(bs[:len(root)], root)) {
		return nil, false
	}
	rest := bs[len(root):]
	if len(rest) == 0 {
		return "", true
	}
	if !e.decide(eqInt(rest[0], mkByte('/'))) {
		return nil, false
	}
	return mkStr(append([]Int{}, rest[1:]...)), true
}

// fileObj is an open *os.File of the model.
type fileObj struct {
	ino *fsInode
	off int
	eof value
	// a read deadline has been set (and is due: the code under test only
	// ever sets time.Now())
	deadline bool
}

// infoObj serves as fs.FileInfo and fs.DirEntry.
type infoObj struct {
	name  value
	dir   bool
	size  int
	ino   int
	mtime int
}

func (o *infoObj) methods() map[string]bool {
	return map[string]bool{"Name": true, "IsDir": true, "Size": true, "Type": true, "Info": true, "Mode": true, "ModTime": true}
}

func (o *infoObj) invoke(e *Exec, method string, args []value) value {
	switch method {
	case "Name":
		return o.name
	case "IsDir":
		return Bool{C: o.dir}
	case "Size":
		return mkI64(int64(o.size))
	case "Mode", "Type":
		// a directory or a regular file
		if o.dir {
			return Int{W: 32, C: 1<<31 | 0o755}
		}
		return Int{W: 32, C: 0o644}
	case "ModTime":
		// one second per change of any file's contents, from a fixed origin
		return TimeV{Sec: mkI64(1_600_000_000 + int64(o.mtime)), Nsec: mkI64(0)}
	}
	panic(inconclusive{"method " + method + " on a model directory entry"})
}

// hashObj is hash.Hash of sha256.New(): it collects the concrete bytes
// written and hashes them natively.
type hashObj struct{ data []byte }

func (h *hashObj) methods() map[string]bool {
	return map[string]bool{"Write": true, "Sum": true, "Reset": true, "Size": true, "BlockSize": true}
}

func (h *hashObj) invoke(e *Exec, method string, args []value) value {
	switch method {
	case "Write":
		p, _ := args[0].([]value)
		for _, b := range p {
			x := b.(Int)
			if !x.isConc() {
				panic(inconclusive{"sha256 over symbolic bytes"})
			}
			h.data = append(h.data, byte(x.C))
		}
		return tuple{mkI64(int64(len(p))), iface{}}
	case "Sum":
		sum := sha256.Sum256(h.data)
		out, _ := args[0].([]value)
		out = append([]value{}, out...)
		for _, b := range sum {
			out = append(out, mkByte(b))
		}
		return out
	case "Reset":
		h.data = nil
		return nil
	case "Size":
		return mkI64(32)
	case "BlockSize":
		return mkI64(64)
	}
	panic(inconclusive{"method " + method + " on the sha256 model"})
}

// nativeMethods lets a native object say which methods it has, so that a
// type assertion to an interface it does not implement fails as in Go.
type nativeMethods interface {
	methods() map[string]bool
}

func nativeImplements(o nativeObj, it *types.Interface) bool {
	nm, ok := o.(nativeMethods)
	if !ok {
		return true
	}
	ms := nm.methods()
	for i := 0; i < it.NumMethods(); i++ {
		if !ms[it.Method(i).Name()] {
			return false
		}
	}
	return true
}

func (e *Exec) ioEOF() value {
	pkg := e.prog.ImportedPackage("io")
	if pkg == nil {
		panic(inconclusive{"package io not loaded"})
	}
	g, _ := pkg.Members["EOF"].(*ssa.Global)
	return *e.global(g)
}

func (e *Exec) fsIntrinsic(name string, args []value) (value, bool) {
	switch name {
	case "vfsRoot":
		return vfsRootPath, true
	case "vfsWrite":
		// like os.WriteFile: create, or truncate the existing file, then write
		n := e.fsLookup(args[0])
		if n == nil {
			n = &fsNode{name: args[0], ino: e.fsNewInode(false)}
			e.fs.nodes = append(e.fs.nodes, n)
		}
		n.ino.content = append([]Int{}, strBytes(args[1])...)
		e.fsTouch(n.ino)
		return nil, true
	case "vfsAppend":
		n := e.fsLookup(args[0])
		if n == nil {
			n = &fsNode{name: args[0], ino: e.fsNewInode(false)}
			e.fs.nodes = append(e.fs.nodes, n)
		}
		n.ino.content = append(n.ino.content, strBytes(args[1])...)
		e.fsTouch(n.ino)
		return nil, true
	case "vfsTruncate":
		if n := e.fsLookup(args[0]); n != nil {
			n.ino.content = nil
			e.fsTouch(n.ino)
		}
		return nil, true
	case "vfsRename":
		n := e.fsLookup(args[0])
		if n == nil {
			return nil, true
		}
		if o := e.fsLookup(args[1]); o != nil && o != n {
			for i, x := range e.fs.nodes {
				if x == o {
					e.fs.nodes = append(e.fs.nodes[:i:i], e.fs.nodes[i+1:]...)
					break
				}
			}
		}
		n.name = args[1]
		return nil, true
	case "vfsCopy":
		n := e.fsLookup(args[0])
		if n == nil {
			return nil, true
		}
		o := e.fsLookup(args[1])
		if o == nil {
			o = &fsNode{name: args[1], ino: e.fsNewInode(false)}
			e.fs.nodes = append(e.fs.nodes, o)
		}
		o.ino.content = append([]Int{}, n.ino.content...)
		e.fsTouch(o.ino)
		return nil, true
	case "vfsMkfifo":
		if e.fsLookup(args[0]) == nil {
			ino := e.fsNewInode(false)
			ino.fifo = true
			e.fs.nodes = append(e.fs.nodes, &fsNode{name: args[0], ino: ino})
		}
		return nil, true
	case "vfifoOpen":
		if n := e.fsLookup(args[0]); n != nil && n.ino.fifo {
			n.ino.writers++
		}
		return nil, true
	case "vfifoWrite":
		if n := e.fsLookup(args[0]); n != nil && n.ino.fifo && n.ino.writers > 0 {
			n.ino.content = append(n.ino.content, strBytes(args[1])...)
		}
		return nil, true
	case "vfifoClose":
		if n := e.fsLookup(args[0]); n != nil && n.ino.fifo && n.ino.writers > 0 {
			n.ino.writers--
		}
		return nil, true
	case "vfsExists":
		return Bool{C: e.fsLookup(args[0]) != nil}, true
	case "vfsMkdir":
		if e.fsLookup(args[0]) == nil {
			e.fs.nodes = append(e.fs.nodes, &fsNode{name: args[0], ino: e.fsNewInode(true)})
		}
		return nil, true
	case "vfsRemove":
		if n := e.fsLookup(args[0]); n != nil {
			for i, x := range e.fs.nodes {
				if x == n {
					e.fs.nodes = append(e.fs.nodes[:i:i], e.fs.nodes[i+1:]...)
					break
				}
			}
		}
		return nil, true
	case "vCompileCalls":
		return mkI64(int64(e.compileCalls)), true
	}
	return nil, false
}

func init() {
	notExist := func(e *Exec, op string) iface { return e.newError(op+": no such file or directory", nil) }
	fileInfoT := func(fn *ssa.Function, i int) types.Type { return fn.Signature.Results().At(i).Type() }
	stubs["os.Stat"] = func(e *Exec, fn *ssa.Function, args []value) value {
		name, ok := e.fsSplit(args[0])
		if !ok {
			return tuple{iface{}, notExist(e, "stat")}
		}
		if s, isC := name.(string); isC && s == "" {
			return tuple{iface{t: fileInfoT(fn, 0), v: &infoObj{name: "vfs", dir: true}}, iface{}}
		}
		n := e.fsLookup(name)
		if n == nil {
			return tuple{iface{}, notExist(e, "stat")}
		}
		return tuple{iface{t: fileInfoT(fn, 0), v: &infoObj{name: n.name, dir: n.ino.dir, size: len(n.ino.content), ino: n.ino.id, mtime: n.ino.mtime}}, iface{}}
	}
	stubs["os.ReadDir"] = func(e *Exec, fn *ssa.Function, args []value) value {
		name, ok := e.fsSplit(args[0])
		if s, isC := name.(string); !ok || !isC || s != "" {
			return tuple{[]value(nil), notExist(e, "readdir")}
		}
		nodes := append([]*fsNode{}, e.fs.nodes...)
		// os.ReadDir returns the entries sorted by file name
		sort.SliceStable(nodes, func(i, j int) bool { return e.strLess(strBytes(nodes[i].name), strBytes(nodes[j].name)) })
		et := fn.Signature.Results().At(0).Type().(*types.Slice).Elem()
		var out []value
		for _, n := range nodes {
			out = append(out, iface{t: et, v: &infoObj{name: n.name, dir: n.ino.dir, size: len(n.ino.content), ino: n.ino.id, mtime: n.ino.mtime}})
		}
		return tuple{out, iface{}}
	}
	stubs["os.OpenFile"] = func(e *Exec, fn *ssa.Function, args []value) value {
		name, ok := e.fsSplit(args[0])
		var n *fsNode
		if ok {
			n = e.fsLookup(name)
		}
		if n == nil {
			return tuple{(*value)(nil), notExist(e, "open")}
		}
		p := new(value)
		*p = &fileObj{ino: n.ino, eof: e.ioEOF()}
		return tuple{p, iface{}}
	}
	fileOf := func(v value) *fileObj {
		p, _ := v.(*value)
		if p == nil {
			panic(goPanic{"runtime error: invalid memory address or nil pointer dereference (*os.File)"})
		}
		f, ok := (*p).(*fileObj)
		if !ok {
			panic(inconclusive{"*os.File that was not opened through the model file system"})
		}
		return f
	}
	stubs["(*os.File).Read"] = func(e *Exec, fn *ssa.Function, args []value) value {
		f := fileOf(args[0])
		if f.ino.dir {
			return tuple{mkI64(0), e.newError("read: is a directory", nil)}
		}
		buf, _ := args[1].([]value)
		if len(buf) == 0 {
			return tuple{mkI64(0), iface{}}
		}
		if f.ino.fifo {
			// a pipe opened O_NONBLOCK, read through Go's poller: data if
			// there is any (a chunk of the solver's choosing), end of file
			// when no writing end is open, an i/o timeout once a deadline is
			// set, otherwise wait
			ino := f.ino
			// (a read is a system call: other goroutines get to run, so that
			// a loop that polls the pipe cannot starve them under the
			// cooperative scheduler)
			if e.cur.id != 0 {
				e.yield()
			}
			for {
				if f.deadline {
					return tuple{mkI64(0), e.newError("read: i/o timeout", nil)}
				}
				if len(ino.content) > 0 {
					max := len(ino.content)
					if len(buf) < max {
						max = len(buf)
					}
					if max > 3 {
						max = 3
					}
					k := 1
					if max > 1 && e.sh.cfg.Concrete != nil {
						// replaying one input vector (translator validation):
						// the chunking is not part of the vector; natively the
						// kernel hands over everything there is
						k = len(ino.content)
						if len(buf) < k {
							k = len(buf)
						}
					}
					if max > 1 && e.sh.cfg.Concrete == nil {
						k = 1 + e.choose(max)
						if k == max {
							// the largest choice stands for "everything there is"
							k = len(ino.content)
							if len(buf) < k {
								k = len(buf)
							}
						}
					}
					copy(buf[:k], bytesToSlice(ino.content[:k]))
					ino.content = ino.content[k:]
					return tuple{mkI64(int64(k)), iface{}}
				}
				if ino.writers == 0 {
					return tuple{mkI64(0), f.eof}
				}
				e.block("read of an empty pipe", func() bool { return f.deadline || len(ino.content) > 0 || ino.writers == 0 })
			}
		}
		if f.off >= len(f.ino.content) {
			return tuple{mkI64(0), f.eof}
		}
		n := 0
		for n < len(buf) && f.off < len(f.ino.content) {
			buf[n] = f.ino.content[f.off]
			n++
			f.off++
		}
		return tuple{mkI64(int64(n)), iface{}}
	}
	stubs["(*os.File).Seek"] = func(e *Exec, fn *ssa.Function, args []value) value {
		f := fileOf(args[0])
		off, wh := args[1].(Int), args[2].(Int)
		if !off.isConc() || !wh.isConc() {
			panic(inconclusive{"Seek with symbolic arguments"})
		}
		base := 0
		switch wh.signed() {
		case 1:
			base = f.off
		case 2:
			base = len(f.ino.content)
		}
		np := base + int(off.signed())
		if np < 0 {
			return tuple{mkI64(0), e.newError("seek: invalid argument", nil)}
		}
		f.off = np
		return tuple{mkI64(int64(np)), iface{}}
	}
	stubs["(*os.File).SetReadDeadline"] = func(e *Exec, fn *ssa.Function, args []value) value {
		fileOf(args[0]).deadline = true
		return iface{}
	}
	stubs["os.IsTimeout"] = func(e *Exec, fn *ssa.Function, args []value) value {
		if o, ok := args[0].(iface).v.(*errObj); ok {
			if s, isS := o.msg.(string); isS {
				return Bool{C: strings.HasSuffix(s, "i/o timeout")}
			}
		}
		return Bool{C: false}
	}
	stubs["os.SameFile"] = func(e *Exec, fn *ssa.Function, args []value) value {
		a, ok1 := args[0].(iface).v.(*infoObj)
		b, ok2 := args[1].(iface).v.(*infoObj)
		if !ok1 || !ok2 {
			panic(inconclusive{"os.SameFile on a FileInfo that is not from the model file system"})
		}
		return Bool{C: a.ino == b.ino}
	}
	stubs["os.IsNotExist"] = func(e *Exec, fn *ssa.Function, args []value) value {
		err := args[0].(iface)
		if o, ok := err.v.(*errObj); ok {
			if s, isS := o.msg.(string); isS {
				return Bool{C: strings.HasSuffix(s, "no such file or directory")}
			}
		}
		return Bool{C: false}
	}
	stubs["(*os.File).Stat"] = func(e *Exec, fn *ssa.Function, args []value) value {
		f := fileOf(args[0])
		return tuple{iface{t: fn.Signature.Results().At(0).Type(), v: &infoObj{name: "", dir: f.ino.dir, size: len(f.ino.content), ino: f.ino.id, mtime: f.ino.mtime}}, iface{}}
	}
	stubs["(*os.File).Close"] = func(e *Exec, fn *ssa.Function, args []value) value {
		fileOf(args[0])
		return iface{}
	}
	stubs["crypto/sha256.New"] = func(e *Exec, fn *ssa.Function, args []value) value {
		return iface{t: fn.Signature.Results().At(0).Type(), v: &hashObj{}}
	}
	// the compiler: the harness package provides verifCompile(name, content),
	// generated from what the working tree's compiler made of each content
	compile := func(e *Exec, fn *ssa.Function, args []value) value {
		e.compileCalls++
		in := args[2].(iface)
		rd := e.lookupMethodOrNil(in.t, "String")
		if rd == nil {
			panic(inconclusive{"compiler input without a String method"})
		}
		content := e.call(rd, []value{in.v})
		h := e.sh.entry.Pkg.Func("verifCompile")
		if h == nil {
			panic(inconclusive{"harness has no verifCompile"})
		}
		return e.call(h, []value{args[1], content})
	}
	stubs["(*github.com/google/mtail/internal/runtime/compiler.Compiler).Compile"] = compile
	stubs["github.com/google/mtail/internal/runtime/compiler.New"] = func(e *Exec, fn *ssa.Function, args []value) value {
		return tuple{(*value)(nil), iface{}}
	}
}
