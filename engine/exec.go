package main

import (
	"fmt"
	"math"
	"os"
	"regexp/syntax"
	"runtime"
	"sort"
	"strconv"
	"strings"
	"sync"
	"time"

	"golang.org/x/tools/go/ssa"
)

type pathAbort struct{ reason string }
type goPanic struct{ v value }
type inconclusive struct{ why string }

// InputRec is one nondet* call made on a path, in call order.
type InputRec struct {
	Tag  string `json:"tag"`
	Kind string `json:"kind"` // bool byte int int64 uint64 float64 range
	term *Term
	conc value
	Val  string `json:"val"` // filled from a model
}

type Violation struct {
	Job    string     `json:"job"`
	ID     string     `json:"id"`
	Msg    string     `json:"msg,omitempty"`
	Inputs []InputRec `json:"inputs"`
	Trace  []int64    `json:"trace"`
	Known  string     `json:"known,omitempty"`
}

type knownCond struct {
	id   string
	cond Bool
}

// JobConfig bounds one exploration.
type JobConfig struct {
	Name        string
	MaxSteps    int64 // per path (unwinding guard)
	MaxPaths    int64
	Deadline    time.Time
	Workers     int
	TimeoutMs   int
	StopFirst   bool
	Samples     int
	SampleEvery int              // additionally sample every n-th path of a worker (0 = off)
	Concrete    []string         // concrete replay vector (values in call order); nil = symbolic
	KnownIDs    map[string]bool  // listed known-finding ids (others attribute nothing)
	Params      map[string]int64 // harness parameters readable via vParam
	SolverBin   string
	SolverArgs  []string
	SMTLog      string
	Only        []string // assertion-id prefixes that belong to this check (empty = all)
}

// Shared is the state shared by the workers of one job.
type Shared struct {
	cfg   JobConfig
	prog  *ssa.Program
	entry *ssa.Function
	inits []*ssa.Function

	mu      sync.Mutex
	cond    *sync.Cond
	work    [][]int64
	active  int
	stop    bool
	started int64
}

// Stats are merged over workers.
type Stats struct {
	Paths         int64
	Aborted       int64
	Steps         int64
	Decisions     int64
	Asserts       map[string]int64
	AssertsSym    map[string]int64
	Viol          []Violation
	KnownHit      map[string]*Violation
	Incon         []string
	Funcs         map[string]int64
	FuncInstrs    map[string]int64
	Queries       int
	Sat           int
	Unsat         int
	Unknown       int
	SolverErrs    int
	SolverTime    time.Duration
	MaxQuery      time.Duration
	Samples       []map[string]interface{}
	Observed      [][]string
	CacheHits     int64
	Stubs         map[string]int64
	MaxPathStep   int64
	UFRefinements int64
	RaceQueries   int64
}

func newStats() *Stats {
	return &Stats{Asserts: map[string]int64{}, AssertsSym: map[string]int64{}, KnownHit: map[string]*Violation{}, Funcs: map[string]int64{}, FuncInstrs: map[string]int64{}, Stubs: map[string]int64{}}
}

func (s *Stats) merge(o *Stats) {
	s.Paths += o.Paths
	s.Aborted += o.Aborted
	s.Steps += o.Steps
	s.Decisions += o.Decisions
	for k, v := range o.Asserts {
		s.Asserts[k] += v
	}
	for k, v := range o.AssertsSym {
		s.AssertsSym[k] += v
	}
	s.Viol = append(s.Viol, o.Viol...)
	for k, v := range o.KnownHit {
		if _, ok := s.KnownHit[k]; !ok {
			s.KnownHit[k] = v
		}
	}
	s.Incon = append(s.Incon, o.Incon...)
	for k, v := range o.Funcs {
		s.Funcs[k] += v
	}
	for k, v := range o.FuncInstrs {
		s.FuncInstrs[k] += v
	}
	for k, v := range o.Stubs {
		s.Stubs[k] += v
	}
	s.Queries += o.Queries
	s.Sat += o.Sat
	s.Unsat += o.Unsat
	s.Unknown += o.Unknown
	s.SolverErrs += o.SolverErrs
	s.SolverTime += o.SolverTime
	if o.MaxQuery > s.MaxQuery {
		s.MaxQuery = o.MaxQuery
	}
	s.Samples = append(s.Samples, o.Samples...)
	s.Observed = append(s.Observed, o.Observed...)
	s.CacheHits += o.CacheHits
	if o.MaxPathStep > s.MaxPathStep {
		s.MaxPathStep = o.MaxPathStep
	}
	s.UFRefinements += o.UFRefinements
	s.RaceQueries += o.RaceQueries
}

// Exec is one worker: an interpreter plus its own solver process.
type Exec struct {
	sh   *Shared
	prog *ssa.Program
	sol  *Solver
	st   *Stats

	prefix []int64
	pos    int
	trace  []int64
	local  [][]int64

	nsym     int
	inputs   []InputRec
	known    []knownCond
	decided  map[string]bool // branch-condition cache for the current path
	observed []string
	concPos  int

	pathSteps int64

	globals     map[*ssa.Global]*value
	inited      map[*ssa.Package]bool
	expvar      map[string]*expvarObj
	expvarOrder []string

	gs            []*G
	cur           *G
	locks         map[*value]*lockState
	pending       interface{}
	recorded      []recordedCall
	recovering    []*frame
	nchan         int
	nopaque       int
	inQuiesce     bool
	lastFn        *ssa.Function // the function entered last (diagnostics)
	reNative      map[*value]*syntax.Regexp
	net           netModel
	clockLast     *Int
	ufDecl        map[string]bool
	ntpdef        int
	sliceData     map[*value][]value
	inExportPoint bool
	quiet         bool // suppress inconclusive notes (sampling)
	tpReg         []tpRegEntry
	tpActive      map[string]bool
	race          raceState
	expvarAnon    map[*value]*expvarObj
	fs            fsModel
	compileCalls  int
	cachedModel   []InputRec
	matchTable    map[*value]value
	matchOn       map[*value][]matchEntry
	natives       map[string]value
	faultSeq      int
	inInit        int
	clockNext     *Int
	ctxChildren   map[*ctxObj][]*ctxObj
	panicsLogged  []string
	reqCtx        map[*value]value
	clockFirst    *Int
	clockFrozen   bool
	ufApps        []ufApp
	pendingFacts  []string
}

type recordedCall struct {
	name string
	args []value
}

func (sh *Shared) newExec() *Exec {
	bin := sh.cfg.SolverBin
	args := sh.cfg.SolverArgs
	if bin == "" {
		bin, args = "z3", []string{"-in"}
	}
	to := sh.cfg.TimeoutMs
	if to == 0 {
		to = 20000
	}
	e := &Exec{sh: sh, prog: sh.prog, sol: NewSolver(to, bin, args...), st: newStats()}
	return e
}

func (e *Exec) fresh(tag string, sort string) *Term {
	name := fmt.Sprintf("|%s!%d|", tag, e.nsym)
	e.nsym++
	e.sol.Send(fmt.Sprintf("(declare-const %s %s)", name, sort))
	return &Term{S: name}
}

func bvSort(w uint8) string { return fmt.Sprintf("(_ BitVec %d)", w) }

const fpSort = "(_ FloatingPoint 11 53)"

func (e *Exec) assert(t *Term) {
	if t.S == "true" {
		return
	}
	e.sol.Send("(assert " + t.S + ")")
}

// feasible asks whether the path condition plus t is satisfiable; unknown
// is treated as feasible and recorded as inconclusive.
func (e *Exec) feasible(t *Term) bool {
	if t.S == "true" {
		return true
	}
	if t.S == "false" {
		return false
	}
	e.sol.Send("(push 1)")
	e.sol.Send("(assert " + t.S + ")")
	r := e.sol.Check()
	if r == "unknown" && e.sol.lastErr == "" {
		// a timeout on a loaded machine: ask once more
		r = e.sol.Check()
	}
	e.sol.Send("(pop 1)")
	if r == "unknown" {
		e.incon("solver unknown on feasibility query: " + e.sol.lastErr)
		return true
	}
	return r == "sat"
}

func (e *Exec) incon(why string) {
	if e.quiet {
		return
	}
	if len(e.st.Incon) < 50 {
		e.st.Incon = append(e.st.Incon, why)
	}
}

// branch decides a symbolic condition, forking when both sides are feasible.
func (e *Exec) branch(t *Term) bool {
	switch t.S {
	case "true":
		return true
	case "false":
		return false
	}
	if d, ok := e.decided[t.S]; ok {
		e.st.CacheHits++
		return d
	}
	nt := tnot(t)
	if d, ok := e.decided[nt.S]; ok {
		e.st.CacheHits++
		return !d
	}
	e.st.Decisions++
	var d bool
	if e.pos < len(e.prefix) {
		d = e.prefix[e.pos] == 1
		e.pos++
		e.trace = append(e.trace, b2i(d))
		if d {
			e.assert(t)
		} else {
			e.assert(nt)
		}
		e.decided[t.S] = d
		return d
	}
	e.pos++
	satT := e.feasible(t)
	satF := true
	if satT {
		satF = e.feasible(nt)
	}
	switch {
	case satT && satF:
		alt := append(append(make([]int64, 0, len(e.trace)+1), e.trace...), 0)
		e.local = append(e.local, alt)
		e.trace = append(e.trace, 1)
		e.assert(t)
		d = true
	case satT:
		e.trace = append(e.trace, 1)
		// implied by the path condition; no need to assert
		d = true
	default:
		e.trace = append(e.trace, 0)
		d = false
	}
	e.decided[t.S] = d
	return d
}

func b2i(b bool) int64 {
	if b {
		return 1
	}
	return 0
}

// choose forks over n alternatives without consulting the solver.
func (e *Exec) choose(n int) int {
	if n <= 0 {
		panic(pathAbort{"choose: empty"})
	}
	if n == 1 {
		return 0
	}
	e.st.Decisions++
	if e.pos < len(e.prefix) {
		d := e.prefix[e.pos]
		e.pos++
		e.trace = append(e.trace, d)
		return int(d)
	}
	e.pos++
	for i := n - 1; i >= 1; i-- {
		alt := append(append(make([]int64, 0, len(e.trace)+1), e.trace...), int64(i))
		e.local = append(e.local, alt)
	}
	e.trace = append(e.trace, 0)
	return 0
}

// concretize enumerates the feasible values of an integer term and forks over them.
func (e *Exec) concretize(x Int) Int { return e.concretizeUpTo(x, 64) }

// concretizeUpTo forks over every feasible value of x (at most limit of them).
func (e *Exec) concretizeUpTo(x Int, limit int) Int {
	if x.isConc() {
		return x
	}
	t := x.term()
	e.st.Decisions++
	if e.pos < len(e.prefix) {
		d := e.prefix[e.pos]
		e.pos++
		e.trace = append(e.trace, d)
		c := mkInt(x.W, x.S, uint64(d))
		e.assert(&Term{S: fmt.Sprintf("(= %s %s)", t.S, c.term().S)})
		return c
	}
	e.pos++
	var vals []uint64
	e.sol.Send("(push 1)")
	for {
		if e.sol.Check() != "sat" {
			break
		}
		v := parseBV(e.sol.GetValue(t.S))
		vals = append(vals, v)
		e.sol.Send(fmt.Sprintf("(assert (not (= %s %s)))", t.S, bvLit(v, x.W)))
		if len(vals) > limit {
			e.sol.Send("(pop 1)")
			where := ""
			if e.lastFn != nil {
				where = " (last function entered: " + e.lastFn.String() + ")"
			}
			panic(inconclusive{fmt.Sprintf("concretize: more than %d feasible values for %s%s", limit, t.S, where)})
		}
	}
	e.sol.Send("(pop 1)")
	if len(vals) == 0 {
		panic(pathAbort{"concretize: infeasible"})
	}
	sort.Slice(vals, func(i, j int) bool { return vals[i] < vals[j] })
	for _, v := range vals[1:] {
		alt := append(append(make([]int64, 0, len(e.trace)+1), e.trace...), int64(v))
		e.local = append(e.local, alt)
	}
	e.trace = append(e.trace, int64(vals[0]))
	c := mkInt(x.W, x.S, vals[0])
	e.assert(&Term{S: fmt.Sprintf("(= %s %s)", t.S, c.term().S)})
	return c
}

func parseBV(s string) uint64 {
	s = strings.TrimSpace(s)
	switch {
	case strings.HasPrefix(s, "#x"):
		v, _ := strconv.ParseUint(s[2:], 16, 64)
		return v
	case strings.HasPrefix(s, "#b"):
		v, _ := strconv.ParseUint(s[2:], 2, 64)
		return v
	case strings.HasPrefix(s, "(_ bv"):
		f := strings.Fields(s[5:])
		v, _ := strconv.ParseUint(f[0], 10, 64)
		return v
	}
	if os.Getenv("VERIF_DEBUG") != "" {
		fmt.Println("DEBUG parseBV", s, engineStack())
	}
	panic(inconclusive{"parseBV: " + s})
}

// parseFP parses a z3/cvc5 FP model value into a float64.
func parseFP(s string) (float64, bool) {
	s = strings.TrimSpace(s)
	switch {
	case strings.HasPrefix(s, "(fp "):
		f := strings.Fields(strings.TrimSuffix(s[4:], ")"))
		if len(f) != 3 {
			return 0, false
		}
		sign, exp, man := parseBV(f[0]), parseBV(f[1]), parseBV(f[2])
		return math.Float64frombits(sign<<63 | exp<<52 | man), true
	case strings.HasPrefix(s, "(_ +zero"):
		return 0, true
	case strings.HasPrefix(s, "(_ -zero"):
		return math.Copysign(0, -1), true
	case strings.HasPrefix(s, "(_ +oo"):
		return math.Inf(1), true
	case strings.HasPrefix(s, "(_ -oo"):
		return math.Inf(-1), true
	case strings.HasPrefix(s, "(_ NaN"):
		return math.NaN(), true
	}
	return 0, false
}

// model fills in concrete values for all inputs of the current path from
// the solver's current model (a (check-sat) returning sat must precede).
func (e *Exec) model() []InputRec {
	if e.cachedModel != nil {
		m := e.cachedModel
		e.cachedModel = nil
		return m
	}
	out := make([]InputRec, len(e.inputs))
	copy(out, e.inputs)
	for i := range out {
		in := &out[i]
		if in.term == nil {
			in.Val = fmt.Sprint(in.conc)
			continue
		}
		raw := e.sol.GetValue(in.term.S)
		switch in.Kind {
		case "bool":
			in.Val = raw
		case "float64":
			if f, ok := parseFP(raw); ok {
				in.Val = strconv.FormatUint(math.Float64bits(f), 10)
			} else {
				in.Val = "?" + raw
			}
		case "int", "int64":
			in.Val = strconv.FormatInt(int64(parseBV(raw)), 10)
		default:
			in.Val = strconv.FormatUint(parseBV(raw), 10)
		}
	}
	return out
}

func (e *Exec) mine(id string) bool {
	if len(e.sh.cfg.Only) == 0 {
		return true
	}
	for _, p := range e.sh.cfg.Only {
		if strings.HasPrefix(id, p) {
			return true
		}
	}
	return false
}

func (e *Exec) vAssert(c Bool, id string) {
	if !e.mine(id) {
		// an assertion of another property sharing this harness: not this
		// check's business, and not assumed either
		return
	}
	e.st.Asserts[id]++
	if c.T == nil {
		if !c.C {
			msg := e.race.lastMsg
			e.race.lastMsg = ""
			e.violationHere(id, msg)
			panic(pathAbort{"assert failed concretely"})
		}
		return
	}
	e.st.AssertsSym[id]++
	e.sol.Send("(push 1)")
	e.sol.Send("(assert " + tnot(c.T).S + ")")
	// exclude the regions of listed known findings first
	var listed []knownCond
	for _, k := range e.known {
		if e.sh.cfg.KnownIDs[k.id] {
			listed = append(listed, k)
		}
	}
	if len(listed) > 0 {
		e.sol.Send("(push 1)")
		for _, k := range listed {
			e.sol.Send("(assert " + bnot(k.cond).term().S + ")")
		}
		r := e.checkRefined()
		if r == "sat" {
			e.recordViolation(id, "", "")
		} else if r == "unknown" {
			nc := tnot(c.T).S
			for _, k := range listed {
				nc = "(and " + nc + " " + bnot(k.cond).term().S + ")"
			}
			e.sol.Send("(pop 2)")
			if e.probeViolation(nc) {
				e.recordViolation(id, "", "")
			} else {
				e.incon("solver unknown at assert " + id + ": " + e.sol.lastErr)
			}
			e.sol.Send("(push 2)")
		}
		e.sol.Send("(pop 1)")
		if r == "unsat" {
			for _, k := range listed {
				if _, seen := e.st.KnownHit[k.id]; seen {
					continue
				}
				e.sol.Send("(push 1)")
				e.sol.Send("(assert " + k.cond.term().S + ")")
				if e.checkRefined() == "sat" {
					v := e.mkViolation(id, "")
					v.Known = k.id
					e.st.KnownHit[k.id] = &v
				}
				e.sol.Send("(pop 1)")
			}
		}
	} else {
		r := e.checkRefined()
		if r == "sat" {
			e.recordViolation(id, "", "")
		} else if r == "unknown" {
			e.sol.Send("(pop 1)")
			if e.probeViolation(tnot(c.T).S) {
				e.recordViolation(id, "", "")
			} else {
				e.incon("solver unknown at assert " + id + ": " + e.sol.lastErr)
			}
			e.sol.Send("(push 1)")
		}
	}
	e.sol.Send("(pop 1)")
	// continue under the assumption that the assertion holds
	// (if it cannot hold on this path, carry on without it: the rest of the
	// path is still worth checking, e.g. inside a known-finding region)
	if e.feasible(c.T) {
		e.assert(c.T)
	}
}

func (e *Exec) mkViolation(id, msg string) Violation {
	return Violation{Job: e.sh.cfg.Name, ID: id, Msg: msg, Inputs: e.model(), Trace: append([]int64{}, e.trace...)}
}

// recordViolation records a violation using the solver's current model.
func (e *Exec) recordViolation(id, msg, known string) {
	v := e.mkViolation(id, msg)
	v.Known = known
	if len(e.st.Viol) < 20 {
		e.st.Viol = append(e.st.Viol, v)
	}
	if e.sh.cfg.StopFirst {
		e.sh.mu.Lock()
		e.sh.stop = true
		e.sh.mu.Unlock()
	}
}

// violationHere reports a violation that holds on the whole current path
// (concrete assertion failure, panic, deadlock).
func (e *Exec) violationHere(id, msg string) {
	// attribute to known findings whose condition covers the whole path
	var listed []knownCond
	for _, k := range e.known {
		if e.sh.cfg.KnownIDs[k.id] {
			listed = append(listed, k)
		}
	}
	if len(listed) > 0 {
		e.sol.Send("(push 1)")
		for _, k := range listed {
			e.sol.Send("(assert " + bnot(k.cond).term().S + ")")
		}
		r := e.checkRefined()
		if r == "sat" {
			e.recordViolation(id, msg, "")
			e.sol.Send("(pop 1)")
			return
		}
		e.sol.Send("(pop 1)")
		if r == "unknown" {
			e.incon("solver unknown while attributing " + id)
			return
		}
		for _, k := range listed {
			if _, seen := e.st.KnownHit[k.id]; seen {
				continue
			}
			e.sol.Send("(push 1)")
			e.sol.Send("(assert " + k.cond.term().S + ")")
			if e.checkRefined() == "sat" {
				v := e.mkViolation(id, msg)
				v.Known = k.id
				e.st.KnownHit[k.id] = &v
			}
			e.sol.Send("(pop 1)")
		}
		return
	}
	if os.Getenv("VERIF_DEBUG") != "" && e.sol.Check() == "sat" {
		fmt.Println("DEBUG violationHere", id, msg, "unrefined model:")
		for _, in := range e.model() {
			fmt.Printf("   %s(%s)=%s\n", in.Tag, in.Kind, in.Val)
		}
		for _, app := range e.ufApps {
			fmt.Println("   app", app.term, "=", e.sol.GetValue(app.term))
		}
	}
	if e.checkRefined() == "sat" {
		e.recordViolation(id, msg, "")
	} else {
		e.incon("path condition not sat at violation " + id)
	}
}

// worker loop
func (e *Exec) runWorker() {
	sh := e.sh
	for {
		sh.mu.Lock()
		for len(sh.work) == 0 && sh.active > 0 && !sh.stop {
			sh.cond.Wait()
		}
		if sh.stop || (len(sh.work) == 0 && sh.active == 0) {
			sh.cond.Broadcast()
			sh.mu.Unlock()
			return
		}
		p := sh.work[len(sh.work)-1]
		sh.work = sh.work[:len(sh.work)-1]
		sh.active++
		sh.started++
		over := sh.cfg.MaxPaths > 0 && sh.started > sh.cfg.MaxPaths
		late := !sh.cfg.Deadline.IsZero() && time.Now().After(sh.cfg.Deadline)
		sh.mu.Unlock()
		if over || late {
			if over {
				e.incon("path budget exceeded")
			} else {
				e.incon("time budget exceeded")
			}
			sh.mu.Lock()
			sh.stop = true
			sh.active--
			sh.cond.Broadcast()
			sh.mu.Unlock()
			return
		}
		e.runPath(p)
		sh.mu.Lock()
		sh.work = append(sh.work, e.local...)
		e.local = nil
		sh.active--
		sh.cond.Broadcast()
		sh.mu.Unlock()
	}
}

func (e *Exec) runPath(prefix []int64) {
	e.prefix, e.pos, e.trace = prefix, 0, nil
	e.nsym, e.inputs, e.known = 0, nil, nil
	e.decided = map[string]bool{}
	e.observed = nil
	e.concPos = 0
	e.pathSteps = 0
	e.globals = map[*ssa.Global]*value{}
	e.inited = map[*ssa.Package]bool{}
	e.expvar = map[string]*expvarObj{}
	e.expvarOrder = nil
	e.recorded = nil
	e.nchan, e.nopaque = 0, 0
	e.clockLast = nil
	e.clockNext = nil
	e.ctxChildren = nil
	e.inInit = 0
	e.ufDecl = map[string]bool{}
	e.ntpdef = 0
	e.sliceData = nil
	e.tpReg, e.tpActive = nil, nil
	e.race = raceState{names: map[*value]string{}}
	e.expvarAnon = nil
	e.fs = fsModel{}
	e.net = netModel{}
	e.reNative = nil
	e.compileCalls = 0
	e.matchTable = map[*value]value{}
	e.matchOn = map[*value][]matchEntry{}
	e.natives = map[string]value{}
	e.faultSeq = 0
	e.panicsLogged = nil
	e.reqCtx = map[*value]value{}
	e.ufApps, e.pendingFacts = nil, nil
	e.clockFirst = nil
	e.clockFrozen = false
	e.initSched()
	e.sol.Send("(push 1)")
	defer func() {
		if e.pathSteps > e.st.MaxPathStep {
			e.st.MaxPathStep = e.pathSteps
		}
		e.sol.Send("(pop 1)")
	}()
	defer e.killAll()
	defer func() {
		if r := recover(); r != nil {
			switch r := r.(type) {
			case pathAbort:
				e.st.Aborted++
			case goPanic:
				e.st.Paths++
				e.st.Asserts["no-panic"]++
				e.violationHere("no-panic", "panic: "+fmtVal(r.v))
			case inconclusive:
				e.incon(r.why)
			case deadlock:
				e.st.Paths++
				e.st.Asserts["no-deadlock"]++
				e.violationHere("no-deadlock", "deadlock: "+r.who)
			case killSig:
				e.incon("goroutine kill signal reached the main goroutine")
			case runtime.Error:
				e.incon("engine error: " + r.Error() + "\n" + engineStack())
			default:
				panic(r)
			}
		}
	}()
	for _, in := range e.sh.inits {
		e.inInit++
		e.call(in, nil)
		e.inInit--
	}
	e.call(e.sh.entry, nil)
	e.st.Paths++
	// reachability witness + sample
	if int(e.st.Paths) <= e.sh.cfg.Samples || len(e.inputs) == 0 || (e.sh.cfg.SampleEvery > 0 && int(e.st.Paths)%e.sh.cfg.SampleEvery == 0) {
		if len(e.inputs) > 0 {
			// a sample must be a realisable path: with uninterpreted
			// functions on the path the model is settled natively first
			// (a path that cannot be realised at the points tried is simply
			// not sampled)
			e.quiet = true
			r := e.checkRefined()
			e.quiet = false
			if r != "sat" && len(e.ufApps) > 0 {
				r = "skip"
			}
			if r == "skip" {
			} else if r == "sat" {
				m := e.model()
				s := map[string]interface{}{"inputs": m, "decisions": len(e.trace)}
				if len(e.observed) > 0 {
					s["observed"] = e.observed
				}
				e.st.Samples = append(e.st.Samples, s)
			} else {
				e.incon("path end not satisfiable (vacuous path)")
			}
		}
	}
	if len(e.observed) > 0 && len(e.st.Observed) < 4 {
		e.st.Observed = append(e.st.Observed, e.observed)
	}
}

func fmtVal(v value) string {
	switch v := v.(type) {
	case string:
		return v
	case iface:
		return fmtVal(v.v)
	case SStr:
		b := make([]byte, 0, len(v.B))
		for _, x := range v.B {
			if x.X == nil && x.isConc() {
				b = append(b, byte(x.C))
			} else {
				b = append(b, '?')
			}
		}
		return string(b) + " <partly symbolic>"
	case *value:
		if v == nil {
			return "<nil>"
		}
		if st, ok := (*v).(structure); ok && len(st) > 0 {
			if s, ok := st[0].(string); ok {
				return s
			}
		}
		return "<ptr>"
	}
	return fmt.Sprint(v)
}

// RunJob explores all paths of entry with cfg.Workers workers.
func RunJob(prog *ssa.Program, entry *ssa.Function, inits []*ssa.Function, cfg JobConfig) *Stats {
	sh := &Shared{cfg: cfg, prog: prog, entry: entry, inits: inits}
	sh.cond = sync.NewCond(&sh.mu)
	sh.work = [][]int64{{}}
	n := cfg.Workers
	if n <= 0 {
		n = 1
	}
	execs := make([]*Exec, n)
	var wg sync.WaitGroup
	for i := range execs {
		execs[i] = sh.newExec()
		if cfg.SMTLog != "" && i == 0 {
			execs[i].sol.log = mustCreate(cfg.SMTLog)
		}
		wg.Add(1)
		go func(e *Exec) {
			defer wg.Done()
			e.runWorker()
		}(execs[i])
	}
	wg.Wait()
	total := newStats()
	for _, e := range execs {
		e.st.Queries = e.sol.Queries
		e.st.Sat, e.st.Unsat, e.st.Unknown = e.sol.Sat, e.sol.Unsat, e.sol.Unknown
		e.st.SolverErrs = e.sol.Errors
		e.st.SolverTime = e.sol.Time
		e.st.MaxQuery = e.sol.MaxQ
		if e.sol.Errors > 0 {
			e.incon("solver printed (error: " + e.sol.lastErr)
		}
		e.sol.Close()
		total.merge(e.st)
	}
	return total
}

func mustCreate(p string) *os.File {
	f, err := os.OpenFile(p, os.O_CREATE|os.O_WRONLY|os.O_APPEND, 0o644)
	if err != nil {
		panic(err)
	}
	fmt.Fprintln(f, "; ---- new job ----")
	return f
}
