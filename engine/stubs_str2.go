package main

import (
	"go/token"
	"strings"

	"golang.org/x/tools/go/ssa"
)

// Further strings/bytes models.  Searching functions compare byte by byte and
// fork on symbolic bytes; everything is exact for the (concrete) lengths
// involved.

func (e *Exec) matchAt(s []Int, i int, sub []Int) bool {
	if i+len(sub) > len(s) {
		return false
	}
	for j := range sub {
		if s[i+j].X != nil || sub[j].X != nil {
			panic(inconclusive{"substring search over an opaque string piece"})
		}
		if !e.cmpByte(s[i+j], sub[j]) {
			return false
		}
	}
	return true
}

func (e *Exec) symIndex(s, sub []Int) int {
	for i := 0; i+len(sub) <= len(s); i++ {
		if e.matchAt(s, i, sub) {
			return i
		}
	}
	return -1
}

func (e *Exec) symLastIndex(s, sub []Int) int {
	for i := len(s) - len(sub); i >= 0; i-- {
		if e.matchAt(s, i, sub) {
			return i
		}
	}
	return -1
}

func (e *Exec) symSplit(s, sep []Int, n int) []value {
	if len(sep) == 0 {
		panic(inconclusive{"Split with empty separator"})
	}
	var out []value
	start := 0
	for i := 0; i+len(sep) <= len(s); {
		if n > 0 && len(out) == n-1 {
			break
		}
		if e.matchAt(s, i, sep) {
			out = append(out, mkStr(append([]Int{}, s[start:i]...)))
			i += len(sep)
			start = i
		} else {
			i++
		}
	}
	out = append(out, mkStr(append([]Int{}, s[start:]...)))
	return out
}

func (e *Exec) isSpaceByte(b Int) bool {
	if b.X != nil {
		panic(inconclusive{"whitespace test on opaque piece"})
	}
	if b.isConc() {
		switch byte(b.C) {
		case ' ', '\t', '\n', '\v', '\f', '\r':
			return true
		}
		if b.C >= 0x80 {
			panic(inconclusive{"whitespace test on non-ASCII byte"})
		}
		return false
	}
	if e.decide(intBinop(token.GEQ, b, mkByte(0x80)).(Bool)) {
		panic(inconclusive{"whitespace test on symbolic non-ASCII byte"})
	}
	t := b.T.S
	return e.branch(&Term{S: "(or (= " + t + " #x20) (and (bvuge " + t + " #x09) (bvule " + t + " #x0d)))"})
}

func init() {
	strOrBytes := func(v value) []Int {
		switch x := v.(type) {
		case []value:
			return sliceBytes(x)
		case nil:
			return nil
		}
		return strBytes(v)
	}
	for _, pk := range []string{"strings", "bytes"} {
		pk := pk
		ret := func(b []Int) value {
			if pk == "bytes" {
				return bytesToSlice(b)
			}
			return mkStr(b)
		}
		stubs[pk+".Contains"] = func(e *Exec, fn *ssa.Function, args []value) value {
			return Bool{C: e.symIndex(strOrBytes(args[0]), strOrBytes(args[1])) >= 0}
		}
		stubs[pk+".Index"] = func(e *Exec, fn *ssa.Function, args []value) value {
			return mkI64(int64(e.symIndex(strOrBytes(args[0]), strOrBytes(args[1]))))
		}
		stubs[pk+".LastIndex"] = func(e *Exec, fn *ssa.Function, args []value) value {
			return mkI64(int64(e.symLastIndex(strOrBytes(args[0]), strOrBytes(args[1]))))
		}
		stubs[pk+".LastIndexByte"] = func(e *Exec, fn *ssa.Function, args []value) value {
			return mkI64(int64(e.symLastIndex(strOrBytes(args[0]), []Int{args[1].(Int)})))
		}
		stubs[pk+".Count"] = func(e *Exec, fn *ssa.Function, args []value) value {
			s, sub := strOrBytes(args[0]), strOrBytes(args[1])
			if len(sub) == 0 {
				panic(inconclusive{"Count with empty pattern"})
			}
			n := 0
			for i := 0; i+len(sub) <= len(s); {
				if e.matchAt(s, i, sub) {
					n++
					i += len(sub)
				} else {
					i++
				}
			}
			return mkI64(int64(n))
		}
		stubs[pk+".TrimPrefix"] = func(e *Exec, fn *ssa.Function, args []value) value {
			s, p := strOrBytes(args[0]), strOrBytes(args[1])
			if len(p) <= len(s) && e.matchAt(s, 0, p) {
				return ret(s[len(p):])
			}
			return ret(s)
		}
		stubs[pk+".TrimSuffix"] = func(e *Exec, fn *ssa.Function, args []value) value {
			s, p := strOrBytes(args[0]), strOrBytes(args[1])
			if len(p) <= len(s) && e.matchAt(s, len(s)-len(p), p) {
				return ret(s[:len(s)-len(p)])
			}
			return ret(s)
		}
		stubs[pk+".TrimSpace"] = func(e *Exec, fn *ssa.Function, args []value) value {
			s := strOrBytes(args[0])
			i, j := 0, len(s)
			for i < j && e.isSpaceByte(s[i]) {
				i++
			}
			for j > i && e.isSpaceByte(s[j-1]) {
				j--
			}
			return ret(s[i:j])
		}
		stubs[pk+".TrimRight"] = func(e *Exec, fn *ssa.Function, args []value) value {
			s, cut := strOrBytes(args[0]), argStr(args[1])
			j := len(s)
			for j > 0 {
				hit := false
				for k := 0; k < len(cut); k++ {
					if e.cmpByte(s[j-1], mkByte(cut[k])) {
						hit = true
						break
					}
				}
				if !hit {
					break
				}
				j--
			}
			return ret(s[:j])
		}
		stubs[pk+".Repeat"] = func(e *Exec, fn *ssa.Function, args []value) value {
			s := strOrBytes(args[0])
			n := e.concretize(args[1].(Int)).signed()
			if n < 0 {
				panic(goPanic{"strings: negative Repeat count"})
			}
			var out []Int
			for i := int64(0); i < n; i++ {
				out = append(out, s...)
			}
			return ret(out)
		}
		stubs[pk+".EqualFold"] = func(e *Exec, fn *ssa.Function, args []value) value {
			a, b := args[0], args[1]
			as, aok := a.(string)
			bs, bok := b.(string)
			if aok && bok {
				return Bool{C: strings.EqualFold(as, bs)}
			}
			panic(inconclusive{"EqualFold on symbolic strings"})
		}
	}
	stubs["strings.Split"] = func(e *Exec, fn *ssa.Function, args []value) value {
		return e.symSplit(strBytes(args[0]), strBytes(args[1]), -1)
	}
	stubs["strings.SplitN"] = func(e *Exec, fn *ssa.Function, args []value) value {
		n := e.concretize(args[2].(Int)).signed()
		if n == 0 {
			return []value(nil)
		}
		return e.symSplit(strBytes(args[0]), strBytes(args[1]), int(n))
	}
	stubs["strings.Fields"] = func(e *Exec, fn *ssa.Function, args []value) value {
		s := strBytes(args[0])
		var out []value
		i := 0
		for i < len(s) {
			for i < len(s) && e.isSpaceByte(s[i]) {
				i++
			}
			j := i
			for j < len(s) && !e.isSpaceByte(s[j]) {
				j++
			}
			if j > i {
				out = append(out, mkStr(append([]Int{}, s[i:j]...)))
			}
			i = j
		}
		return out
	}
	stubs["strings.ToUpper"] = func(e *Exec, fn *ssa.Function, args []value) value {
		if s, ok := concStr(args[0]); ok {
			return strings.ToUpper(s)
		}
		panic(inconclusive{"ToUpper on symbolic string"})
	}
	stubs["strings.Title"] = stubs["strings.ToUpper"]
	nopB := func(e *Exec, fn *ssa.Function, args []value) value { return nil }
	stubs["(*strings.Builder).Grow"] = nopB
	stubs["(*strings.Builder).Reset"] = func(e *Exec, fn *ssa.Function, args []value) value {
		st := (*args[0].(*value)).(structure)
		st[1] = []value(nil)
		return nil
	}
	stubs["(*strings.Builder).WriteRune"] = func(e *Exec, fn *ssa.Function, args []value) value {
		r := args[1].(Int)
		if !r.isConc() {
			panic(inconclusive{"WriteRune of symbolic rune"})
		}
		st := (*args[0].(*value)).(structure)
		buf, _ := st[1].([]value)
		s := string(rune(r.signed()))
		for i := 0; i < len(s); i++ {
			buf = append(buf, mkByte(s[i]))
		}
		st[1] = buf
		return tuple{mkI64(int64(len(s))), iface{}}
	}
}
