package main

import (
	"go/token"
	"go/types"
	"strings"

	"golang.org/x/tools/go/ssa"
)

// Further strings/bytes models.  Searching functions compare byte by byte and
// fork on symbolic bytes; everything is exact for the (concrete) lengths
// involved.

func (e *Exec) matchAt(s []Int, i int, sub []Int) bool {
	if i+len(sub) > len(s) {
		return false
	}
	for j := range sub {
		if s[i+j].X != nil || sub[j].X != nil {
			panic(inconclusive{"substring search over an opaque string piece"})
		}
		if !e.cmpByte(s[i+j], sub[j]) {
			return false
		}
	}
	return true
}

func (e *Exec) symIndex(s, sub []Int) int {
	for i := 0; i+len(sub) <= len(s); i++ {
		if e.matchAt(s, i, sub) {
			return i
		}
	}
	return -1
}

func (e *Exec) symLastIndex(s, sub []Int) int {
	for i := len(s) - len(sub); i >= 0; i-- {
		if e.matchAt(s, i, sub) {
			return i
		}
	}
	return -1
}

func (e *Exec) symSplit(s, sep []Int, n int) []value {
	if len(sep) == 0 {
		panic(inconclusive{"Split with empty separator"})
	}
	var out []value
	start := 0
	for i := 0; i+len(sep) <= len(s); {
		if n > 0 && len(out) == n-1 {
			break
		}
		if e.matchAt(s, i, sep) {
			out = append(out, mkStr(append([]Int{}, s[start:i]...)))
			i += len(sep)
			start = i
		} else {
			i++
		}
	}
	out = append(out, mkStr(append([]Int{}, s[start:]...)))
	return out
}

func (e *Exec) isSpaceByte(b Int) bool {
	if b.X != nil {
		panic(inconclusive{"whitespace test on opaque piece"})
	}
	if b.isConc() {
		switch byte(b.C) {
		case ' ', '\t', '\n', '\v', '\f', '\r':
			return true
		}
		if b.C >= 0x80 {
			panic(inconclusive{"whitespace test on non-ASCII byte"})
		}
		return false
	}
	if e.decide(intBinop(token.GEQ, b, mkByte(0x80)).(Bool)) {
		panic(inconclusive{"whitespace test on symbolic non-ASCII byte"})
	}
	t := b.T.S
	return e.branch(&Term{S: "(or (= " + t + " #x20) (and (bvuge " + t + " #x09) (bvule " + t + " #x0d)))"})
}

func init() {
	strOrBytes := func(v value) []Int {
		switch x := v.(type) {
		case []value:
			return sliceBytes(x)
		case nil:
			return nil
		}
		return strBytes(v)
	}
	for _, pk := range []string{"strings", "bytes"} {
		pk := pk
		ret := func(b []Int) value {
			if pk == "bytes" {
				return bytesToSlice(b)
			}
			return mkStr(b)
		}
		stubs[pk+".Contains"] = func(e *Exec, fn *ssa.Function, args []value) value {
			return Bool{C: e.symIndex(strOrBytes(args[0]), strOrBytes(args[1])) >= 0}
		}
		stubs[pk+".Index"] = func(e *Exec, fn *ssa.Function, args []value) value {
			return mkI64(int64(e.symIndex(strOrBytes(args[0]), strOrBytes(args[1]))))
		}
		stubs[pk+".LastIndex"] = func(e *Exec, fn *ssa.Function, args []value) value {
			return mkI64(int64(e.symLastIndex(strOrBytes(args[0]), strOrBytes(args[1]))))
		}
		stubs[pk+".LastIndexByte"] = func(e *Exec, fn *ssa.Function, args []value) value {
			return mkI64(int64(e.symLastIndex(strOrBytes(args[0]), []Int{args[1].(Int)})))
		}
		stubs[pk+".Count"] = func(e *Exec, fn *ssa.Function, args []value) value {
			s, sub := strOrBytes(args[0]), strOrBytes(args[1])
			if len(sub) == 0 {
				panic(inconclusive{"Count with empty pattern"})
			}
			n := 0
			for i := 0; i+len(sub) <= len(s); {
				if e.matchAt(s, i, sub) {
					n++
					i += len(sub)
				} else {
					i++
				}
			}
			return mkI64(int64(n))
		}
		stubs[pk+".TrimPrefix"] = func(e *Exec, fn *ssa.Function, args []value) value {
			s, p := strOrBytes(args[0]), strOrBytes(args[1])
			if len(p) <= len(s) && e.matchAt(s, 0, p) {
				return ret(s[len(p):])
			}
			return ret(s)
		}
		stubs[pk+".TrimSuffix"] = func(e *Exec, fn *ssa.Function, args []value) value {
			s, p := strOrBytes(args[0]), strOrBytes(args[1])
			if len(p) <= len(s) && e.matchAt(s, len(s)-len(p), p) {
				return ret(s[:len(s)-len(p)])
			}
			return ret(s)
		}
		stubs[pk+".TrimSpace"] = func(e *Exec, fn *ssa.Function, args []value) value {
			s := strOrBytes(args[0])
			i, j := 0, len(s)
			for i < j && e.isSpaceByte(s[i]) {
				i++
			}
			for j > i && e.isSpaceByte(s[j-1]) {
				j--
			}
			return ret(s[i:j])
		}
		stubs[pk+".TrimRight"] = func(e *Exec, fn *ssa.Function, args []value) value {
			s, cut := strOrBytes(args[0]), argStr(args[1])
			j := len(s)
			for j > 0 {
				hit := false
				for k := 0; k < len(cut); k++ {
					if e.cmpByte(s[j-1], mkByte(cut[k])) {
						hit = true
						break
					}
				}
				if !hit {
					break
				}
				j--
			}
			return ret(s[:j])
		}
		stubs[pk+".Repeat"] = func(e *Exec, fn *ssa.Function, args []value) value {
			s := strOrBytes(args[0])
			n := e.concretize(args[1].(Int)).signed()
			if n < 0 {
				panic(goPanic{"strings: negative Repeat count"})
			}
			var out []Int
			for i := int64(0); i < n; i++ {
				out = append(out, s...)
			}
			return ret(out)
		}
		stubs[pk+".EqualFold"] = func(e *Exec, fn *ssa.Function, args []value) value {
			a, b := args[0], args[1]
			as, aok := a.(string)
			bs, bok := b.(string)
			if aok && bok {
				return Bool{C: strings.EqualFold(as, bs)}
			}
			panic(inconclusive{"EqualFold on symbolic strings"})
		}
	}
	stubs["strings.Split"] = func(e *Exec, fn *ssa.Function, args []value) value {
		return e.symSplit(strBytes(args[0]), strBytes(args[1]), -1)
	}
	stubs["strings.SplitN"] = func(e *Exec, fn *ssa.Function, args []value) value {
		n := e.concretize(args[2].(Int)).signed()
		if n == 0 {
			return []value(nil)
		}
		return e.symSplit(strBytes(args[0]), strBytes(args[1]), int(n))
	}
	stubs["strings.Fields"] = func(e *Exec, fn *ssa.Function, args []value) value {
		s := strBytes(args[0])
		var out []value
		i := 0
		for i < len(s) {
			for i < len(s) && e.isSpaceByte(s[i]) {
				i++
			}
			j := i
			for j < len(s) && !e.isSpaceByte(s[j]) {
				j++
			}
			if j > i {
				out = append(out, mkStr(append([]Int{}, s[i:j]...)))
			}
			i = j
		}
		return out
	}
	stubs["strings.ToUpper"] = func(e *Exec, fn *ssa.Function, args []value) value {
		if s, ok := concStr(args[0]); ok {
			return strings.ToUpper(s)
		}
		// ASCII bytes are mapped one by one (a fork per symbolic byte)
		bs := strBytes(args[0])
		out := make([]Int, len(bs))
		for i, b := range bs {
			switch {
			case b.X != nil:
				panic(inconclusive{"ToUpper on formatted text"})
			case b.isConc():
				if b.C >= 0x80 {
					panic(inconclusive{"ToUpper on a non-ASCII string with symbolic bytes"})
				}
				out[i] = mkByte(strings.ToUpper(string(rune(b.C)))[0])
			case e.decide(byteIn(b, 'a', 'z')):
				out[i] = intBinop(token.SUB, b, mkByte(32)).(Int)
			case e.decide(byteIn(b, 0x00, 0x7F)):
				out[i] = b
			default:
				panic(inconclusive{"ToUpper on a non-ASCII string with symbolic bytes"})
			}
		}
		return mkStr(out)
	}
	stubs["strings.Title"] = func(e *Exec, fn *ssa.Function, args []value) value {
		if s, ok := concStr(args[0]); ok {
			return strings.Title(s)
		}
		panic(inconclusive{"Title on symbolic string"})
	}
	nopB := func(e *Exec, fn *ssa.Function, args []value) value { return nil }
	stubs["(*strings.Builder).Grow"] = nopB
	stubs["(*strings.Builder).Reset"] = func(e *Exec, fn *ssa.Function, args []value) value {
		st := (*args[0].(*value)).(structure)
		st[1] = []value(nil)
		return nil
	}
	stubs["(*strings.Builder).WriteRune"] = func(e *Exec, fn *ssa.Function, args []value) value {
		r := args[1].(Int)
		if !r.isConc() {
			// utf8.AppendRune on a symbolic rune: fork over the encoding lengths
			st := (*args[0].(*value)).(structure)
			buf, _ := st[1].([]value)
			enc := e.encodeRuneSym(r)
			for _, b := range enc {
				buf = append(buf, b)
			}
			st[1] = buf
			return tuple{mkI64(int64(len(enc))), iface{}}
		}
		st := (*args[0].(*value)).(structure)
		buf, _ := st[1].([]value)
		s := string(rune(r.signed()))
		for i := 0; i < len(s); i++ {
			buf = append(buf, mkByte(s[i]))
		}
		st[1] = buf
		return tuple{mkI64(int64(len(s))), iface{}}
	}
}

// encodeRuneSym is utf8.AppendRune for a symbolic rune.
func (e *Exec) encodeRuneSym(r Int) []Int {
	r32 := r
	r32.S = true
	in := func(lo, hi int64) bool {
		ge := intBinop(token.GEQ, r32, mkInt(32, true, uint64(lo))).(Bool)
		le := intBinop(token.LEQ, r32, mkInt(32, true, uint64(hi))).(Bool)
		return e.decide(band(ge, le))
	}
	part := func(shift uint64, mask uint64, lead uint64) Int {
		x := r32
		if shift > 0 {
			x = intBinop(token.SHR, x, mkInt(32, true, shift)).(Int)
		}
		x = intBinop(token.AND, x, mkInt(32, true, mask)).(Int)
		x = intBinop(token.OR, x, mkInt(32, true, lead)).(Int)
		b := e.conv(types.Typ[types.Uint8], types.Typ[types.Int32], x).(Int)
		return b
	}
	switch {
	case in(0, 0x7F):
		return []Int{part(0, 0x7F, 0)}
	case in(0x80, 0x7FF):
		return []Int{part(6, 0x1F, 0xC0), part(0, 0x3F, 0x80)}
	case in(0x800, 0xD7FF) || in(0xE000, 0xFFFF):
		return []Int{part(12, 0x0F, 0xE0), part(6, 0x3F, 0x80), part(0, 0x3F, 0x80)}
	case in(0x10000, 0x10FFFF):
		return []Int{part(18, 0x07, 0xF0), part(12, 0x3F, 0x80), part(6, 0x3F, 0x80), part(0, 0x3F, 0x80)}
	}
	return []Int{mkByte(0xEF), mkByte(0xBF), mkByte(0xBD)}
}
