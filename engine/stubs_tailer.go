package main

import (
	"go/token"
	"go/types"
	"net/url"
	"path/filepath"
	"regexp"
	"regexp/syntax"
	"sort"
	"strings"
	"time"
	"unicode"

	"golang.org/x/tools/go/ssa"
)

// Environment of the tailer (C18): URL parsing and path functions on concrete
// strings are done by the real packages; filepath.Glob lists the model file
// system; a FileMode is the directory bit or a regular file.

func structField(t types.Type, name string) int {
	st := t.Underlying().(*types.Struct)
	for i := 0; i < st.NumFields(); i++ {
		if st.Field(i).Name() == name {
			return i
		}
	}
	return -1
}

func init() {
	stubs["net/url.Parse"] = func(e *Exec, fn *ssa.Function, args []value) value {
		pt := fn.Signature.Results().At(0).Type().(*types.Pointer)
		s, ok := concStr(args[0])
		if !ok {
			return e.urlParseSym(strBytes(args[0]), pt)
		}
		u, err := url.Parse(s)
		if err != nil {
			return tuple{(*value)(nil), e.newError(err.Error(), nil)}
		}
		st := zero(pt.Elem()).(structure)
		set := func(f, v string) { st[structField(pt.Elem(), f)] = v }
		set("Scheme", u.Scheme)
		set("Opaque", u.Opaque)
		set("Host", u.Host)
		set("Path", u.Path)
		set("RawPath", u.RawPath)
		set("RawQuery", u.RawQuery)
		set("Fragment", u.Fragment)
		p := new(value)
		*p = st
		return tuple{p, iface{}}
	}
	stubs["(*net/url.URL).String"] = func(e *Exec, fn *ssa.Function, args []value) value { return "<url>" }
	stubs["path/filepath.Abs"] = func(e *Exec, fn *ssa.Function, args []value) value {
		s, ok := concStr(args[0])
		if !ok {
			// <model directory>/<name>: already absolute and clean when the
			// name holds no '/' and is neither "." nor ".."
			name, under := e.fsSplit(args[0])
			if !under {
				panic(inconclusive{"filepath.Abs of a symbolic path outside the model directory"})
			}
			bs := strBytes(name)
			for _, b := range bs {
				if e.cmpByte(b, mkByte('/')) {
					panic(inconclusive{"filepath.Abs of a symbolic path with a nested component"})
				}
			}
			if len(bs) == 0 || e.decide(bytesEq(bs, strBytes("."))) || e.decide(bytesEq(bs, strBytes(".."))) {
				panic(inconclusive{"filepath.Abs of a symbolic path naming . or .."})
			}
			return tuple{args[0], iface{}}
		}
		if !strings.HasPrefix(s, "/") {
			panic(inconclusive{"filepath.Abs of a relative path"})
		}
		return tuple{filepath.Clean(s), iface{}}
	}
	stubs["path/filepath.Glob"] = func(e *Exec, fn *ssa.Function, args []value) value {
		pat, ok := concStr(args[0])
		if !ok {
			panic(inconclusive{"filepath.Glob of a symbolic pattern"})
		}
		dir, file := filepath.Split(pat)
		if filepath.Clean(dir) != vfsRootPath {
			panic(inconclusive{"filepath.Glob outside the model directory"})
		}
		if _, err := filepath.Match(file, ""); err != nil {
			return tuple{[]value(nil), e.newError(err.Error(), nil)}
		}
		// the real filepath.Match (interpreted from its source) decides for
		// every entry; results in name order, as Glob sorts them
		matchFn := e.prog.ImportedPackage("path/filepath").Func("Match")
		var hits []*fsNode
		for _, n := range e.fs.nodes {
			r := e.call(matchFn, []value{file, n.name}).(tuple)
			if b := r[0].(Bool); (b.T == nil && b.C) || (b.T != nil && e.decide(b)) {
				hits = append(hits, n)
			}
		}
		sort.SliceStable(hits, func(i, j int) bool { return e.strLess(strBytes(hits[i].name), strBytes(hits[j].name)) })
		var out []value
		for _, n := range hits {
			out = append(out, mkStr(append(strBytes(filepath.Clean(dir)+"/"), strBytes(n.name)...)))
		}
		return tuple{out, iface{}}
	}
	stubs["(io/fs.FileMode).IsRegular"] = func(e *Exec, fn *ssa.Function, args []value) value {
		return Bool{C: args[0].(Int).C&0x8F280000 == 0}
	}
	stubs["(io/fs.FileMode).IsDir"] = func(e *Exec, fn *ssa.Function, args []value) value {
		return Bool{C: args[0].(Int).C&(1<<31) != 0}
	}
	stubs["regexp.Compile"] = func(e *Exec, fn *ssa.Function, args []value) value {
		s := e.concretizeStr(args[0])
		if _, err := regexp.Compile(s); err != nil {
			return tuple{(*value)(nil), e.newError(err.Error(), nil)}
		}
		p := new(value)
		*p = "regexp:" + s
		return tuple{p, iface{}}
	}
	stubs["(*regexp.Regexp).MatchString"] = func(e *Exec, fn *ssa.Function, args []value) value {
		re := args[0].(*value)
		if pat, ok := (*re).(string); ok && strings.HasPrefix(pat, "regexp:") {
			if subj, ok := concStr(args[1]); ok {
				if rx, err := regexp.Compile(strings.TrimPrefix(pat, "regexp:")); err == nil {
					return Bool{C: rx.MatchString(subj)}
				}
			}
		}
		if pat, ok := (*re).(string); ok {
			if r, ok := e.anchoredLiteralMatch(strings.TrimPrefix(pat, "regexp:"), strBytes(args[1])); ok {
				return r
			}
		}
		panic(inconclusive{"regexp MatchString on a symbolic subject"})
	}
}

// urlParseSym is url.Parse for a path that starts with a concrete '/' and
// holds symbolic bytes: no scheme; a control character is an error; the path
// ends at the first '?' or '#'.  Escapes ('%') are not modelled.
func (e *Exec) urlParseSym(bs []Int, pt *types.Pointer) value {
	if len(bs) == 0 || !bs[0].isConc() || byte(bs[0].C) != '/' {
		panic(inconclusive{"url.Parse of a symbolic string that does not start with /"})
	}
	end := len(bs)
	for i, b := range bs {
		if b.X != nil {
			panic(inconclusive{"url.Parse of formatted text"})
		}
		if b.isConc() {
			c := byte(b.C)
			if c < 0x20 || c == 0x7f {
				return tuple{(*value)(nil), e.newError("net/url: invalid control character in URL", nil)}
			}
			if c == '%' {
				panic(inconclusive{"url.Parse of a symbolic string with an escape"})
			}
			if (c == '?' || c == '#') && end == len(bs) {
				end = i
			}
			continue
		}
		if e.decide(bor(byteIn(b, 0x00, 0x1f), byteIn(b, 0x7f, 0x7f))) {
			return tuple{(*value)(nil), e.newError("net/url: invalid control character in URL", nil)}
		}
		if e.cmpByte(b, mkByte('%')) {
			panic(inconclusive{"url.Parse of a symbolic string with an escape"})
		}
		if end == len(bs) && (e.cmpByte(b, mkByte('?')) || e.cmpByte(b, mkByte('#'))) {
			end = i
		}
	}
	st := zero(pt.Elem()).(structure)
	st[structField(pt.Elem(), "Path")] = mkStr(append([]Int{}, bs[:end]...))
	p := new(value)
	*p = st
	return tuple{p, iface{}}
}

// anchoredLiteralMatch decides regular expressions of the form ^lit, lit$,
// ^lit$ (lit: plain characters and escaped punctuation) on symbolic bytes.
func (e *Exec) anchoredLiteralMatch(pat string, subj []Int) (value, bool) {
	pre := strings.HasPrefix(pat, "^")
	suf := strings.HasSuffix(pat, "$") && !strings.HasSuffix(pat, "\\$")
	body := pat
	if pre {
		body = body[1:]
	}
	if suf {
		body = body[:len(body)-1]
	}
	var lit []byte
	for i := 0; i < len(body); i++ {
		c := body[i]
		if c == '\\' && i+1 < len(body) && strings.IndexByte(".$^*+?()[]{}|\\/-", body[i+1]) >= 0 {
			i++
			lit = append(lit, body[i])
			continue
		}
		if strings.IndexByte(".$^*+?()[]{}|\\", c) >= 0 {
			return nil, false
		}
		lit = append(lit, c)
	}
	if !pre && !suf {
		return nil, false
	}
	n := len(lit)
	if len(subj) < n || (pre && suf && len(subj) != n) {
		return Bool{C: false}, true
	}
	if pre {
		return Bool{C: e.decide(bytesEq(subj[:n], strBytes(string(lit))))}, true
	}
	return Bool{C: e.decide(bytesEq(subj[len(subj)-n:], strBytes(string(lit))))}, true
}

// ---- a model of stream sockets (C17): a listener is a queue of pending
// connections; a connection is a byte queue written by the harness (the
// peer), with end of file after the peer closed, an i/o timeout after
// SetReadDeadline, "use of closed network connection" after Close ----

var netConnType = types.NewNamed(types.NewTypeName(0, nil, "verif.netConn", nil), types.NewStruct(nil, nil), nil)
var netListenerType = types.NewNamed(types.NewTypeName(0, nil, "verif.netListener", nil), types.NewStruct(nil, nil), nil)

// netPacketObj is a datagram socket: a queue of datagrams.
type netPacketObj struct {
	addr             string
	q                [][]Int
	closed, deadline bool
}

func (c *netPacketObj) methods() map[string]bool {
	return map[string]bool{"ReadFrom": true, "WriteTo": true, "Close": true, "SetReadDeadline": true, "SetDeadline": true, "SetWriteDeadline": true, "LocalAddr": true}
}

func (c *netPacketObj) invoke(e *Exec, method string, args []value) value {
	switch method {
	case "ReadFrom":
		buf, _ := args[0].([]value)
		if e.cur.id != 0 {
			e.yield()
		}
		for {
			if c.closed {
				return tuple{mkI64(0), iface{}, e.newError("read: use of closed network connection", nil)}
			}
			if c.deadline {
				return tuple{mkI64(0), iface{}, e.newError("read: i/o timeout", nil)}
			}
			if len(c.q) > 0 {
				// one datagram per read; what does not fit is dropped
				d := c.q[0]
				c.q = c.q[1:]
				k := len(d)
				if len(buf) < k {
					k = len(buf)
				}
				copy(buf[:k], bytesToSlice(d[:k]))
				return tuple{mkI64(int64(k)), iface{}, iface{}}
			}
			e.block("read of an idle datagram socket", func() bool { return c.closed || c.deadline || len(c.q) > 0 })
		}
	case "Close":
		if c.closed {
			return e.newError("close: use of closed network connection", nil)
		}
		c.closed = true
		delete(e.net.packets, c.addr)
		return iface{}
	case "SetReadDeadline", "SetDeadline":
		c.deadline = true
		return iface{}
	case "SetWriteDeadline":
		return iface{}
	}
	panic(inconclusive{"method " + method + " on a model datagram socket"})
}

var netAddrType = types.NewNamed(types.NewTypeName(0, nil, "verif.netAddr", nil), types.NewStruct(nil, nil), nil)

type netAddrObj struct{ s string }

func (a *netAddrObj) methods() map[string]bool {
	return map[string]bool{"Network": true, "String": true}
}
func (a *netAddrObj) invoke(e *Exec, method string, args []value) value {
	if method == "Network" {
		return "unix"
	}
	return a.s
}

type netConnObj struct {
	pkt                          *netPacketObj // a sender's handle on a datagram socket
	id                           int
	q                            []Int
	peerClosed, closed, deadline bool
}

type netListenerObj struct {
	addr    string
	pending []*netConnObj
	closed  bool
}

type netModel struct {
	packets   map[string]*netPacketObj
	listeners map[string]*netListenerObj
	conns     []*netConnObj
}

func (c *netConnObj) methods() map[string]bool {
	return map[string]bool{"Read": true, "Write": true, "Close": true, "SetReadDeadline": true, "SetDeadline": true, "SetWriteDeadline": true, "LocalAddr": true, "RemoteAddr": true}
}

func (c *netConnObj) invoke(e *Exec, method string, args []value) value {
	switch method {
	case "Read":
		buf, _ := args[0].([]value)
		if e.cur.id != 0 {
			e.yield() // a system call: see the pipe model
		}
		for {
			if c.closed {
				return tuple{mkI64(0), e.newError("read: use of closed network connection", nil)}
			}
			if c.deadline {
				return tuple{mkI64(0), e.newError("read: i/o timeout", nil)}
			}
			if len(buf) == 0 {
				return tuple{mkI64(0), iface{}}
			}
			if len(c.q) > 0 {
				max := len(c.q)
				if len(buf) < max {
					max = len(buf)
				}
				if max > 3 {
					max = 3
				}
				k := 1
				if max > 1 && e.sh.cfg.Concrete != nil {
					k = len(c.q) // see the pipe model
					if len(buf) < k {
						k = len(buf)
					}
				}
				if max > 1 && e.sh.cfg.Concrete == nil {
					k = 1 + e.choose(max)
					if k == max {
						k = len(c.q)
						if len(buf) < k {
							k = len(buf)
						}
					}
				}
				copy(buf[:k], bytesToSlice(c.q[:k]))
				c.q = c.q[k:]
				return tuple{mkI64(int64(k)), iface{}}
			}
			if c.peerClosed {
				return tuple{mkI64(0), e.ioEOF()}
			}
			e.block("read of an idle connection", func() bool { return c.closed || c.deadline || len(c.q) > 0 || c.peerClosed })
		}
	case "Close":
		if c.closed {
			return e.newError("close: use of closed network connection", nil)
		}
		c.closed = true
		return iface{}
	case "SetReadDeadline", "SetDeadline":
		c.deadline = true
		return iface{}
	case "SetWriteDeadline":
		return iface{}
	case "RemoteAddr", "LocalAddr":
		// the peers of a unix stream socket are unnamed: every accepted
		// connection reports the same remote address
		return iface{t: netAddrType, v: &netAddrObj{s: "@"}}
	}
	panic(inconclusive{"method " + method + " on a model connection"})
}

func (l *netListenerObj) methods() map[string]bool {
	return map[string]bool{"Accept": true, "Close": true, "Addr": true}
}

func (l *netListenerObj) invoke(e *Exec, method string, args []value) value {
	switch method {
	case "Accept":
		for {
			if l.closed {
				return tuple{iface{}, e.newError("accept: use of closed network connection", nil)}
			}
			if len(l.pending) > 0 {
				c := l.pending[0]
				l.pending = l.pending[1:]
				return tuple{iface{t: netConnType, v: c}, iface{}}
			}
			e.block("accept", func() bool { return l.closed || len(l.pending) > 0 })
		}
	case "Close":
		if l.closed {
			return e.newError("close: use of closed network connection", nil)
		}
		l.closed = true
		delete(e.net.listeners, l.addr)
		return iface{}
	}
	panic(inconclusive{"method " + method + " on a model listener"})
}

func (e *Exec) netIntrinsic(name string, args []value) (value, bool) {
	switch name {
	case "vnetDial":
		// a peer connects to the listener at addr: the connection's id, or -1
		if pk := e.net.packets[argStr(args[1])]; pk != nil && !pk.closed {
			c := &netConnObj{id: len(e.net.conns), pkt: pk}
			e.net.conns = append(e.net.conns, c)
			return mkI64(int64(c.id)), true
		}
		l := e.net.listeners[argStr(args[1])]
		if l == nil || l.closed {
			return mkI64(-1), true
		}
		c := &netConnObj{id: len(e.net.conns)}
		e.net.conns = append(e.net.conns, c)
		l.pending = append(l.pending, c)
		return mkI64(int64(c.id)), true
	case "vnetWrite":
		id := int(args[0].(Int).signed())
		if id >= 0 && id < len(e.net.conns) && !e.net.conns[id].peerClosed {
			if pk := e.net.conns[id].pkt; pk != nil {
				if !pk.closed {
					pk.q = append(pk.q, append([]Int{}, strBytes(args[1])...))
				}
				return nil, true
			}
			e.net.conns[id].q = append(e.net.conns[id].q, strBytes(args[1])...)
		}
		return nil, true
	case "vnetClose":
		id := int(args[0].(Int).signed())
		if id >= 0 && id < len(e.net.conns) {
			e.net.conns[id].peerClosed = true
		}
		return nil, true
	}
	return nil, false
}

var netPacketType = types.NewNamed(types.NewTypeName(0, nil, "verif.netPacketConn", nil), types.NewStruct(nil, nil), nil)

func init() {
	stubs["net.ListenPacket"] = func(e *Exec, fn *ssa.Function, args []value) value {
		addr := argStr(args[1])
		if e.net.packets == nil {
			e.net.packets = map[string]*netPacketObj{}
		}
		if e.net.packets[addr] != nil {
			return tuple{iface{}, e.newError("listen: address already in use", nil)}
		}
		c := &netPacketObj{addr: addr}
		e.net.packets[addr] = c
		return tuple{iface{t: netPacketType, v: c}, iface{}}
	}
	stubs["net.Listen"] = func(e *Exec, fn *ssa.Function, args []value) value {
		addr := argStr(args[1])
		if e.net.listeners == nil {
			e.net.listeners = map[string]*netListenerObj{}
		}
		if e.net.listeners[addr] != nil {
			return tuple{iface{}, e.newError("listen: address already in use", nil)}
		}
		l := &netListenerObj{addr: addr}
		e.net.listeners[addr] = l
		return tuple{iface{t: netListenerType, v: l}, iface{}}
	}
}

// unicode classification of a symbolic rune: exact for runes up to 0x7FF (one-
// and two-byte encodings; the ranges are read off the real predicate once); a
// larger symbolic rune is concretised.
func init() {
	type rng struct{ lo, hi int64 }
	class := func(name string, native func(rune) bool) {
		var ranges []rng
		for r := rune(0); r <= 0x7FF; r++ {
			if !native(r) {
				continue
			}
			if n := len(ranges); n > 0 && ranges[n-1].hi == int64(r)-1 {
				ranges[n-1].hi = int64(r)
			} else {
				ranges = append(ranges, rng{int64(r), int64(r)})
			}
		}
		stubs["unicode."+name] = func(e *Exec, fn *ssa.Function, args []value) value {
			r := args[0].(Int)
			if r.isConc() {
				return Bool{C: native(rune(r.signed()))}
			}
			r.S = true
			le := intBinop(token.LEQ, r, mkInt(32, true, 0x7FF)).(Bool)
			ge := intBinop(token.GEQ, r, mkInt(32, true, 0)).(Bool)
			if !e.decide(band(le, ge)) {
				c := e.concretize(r)
				return Bool{C: native(rune(c.signed()))}
			}
			cond := Bool{C: false}
			for _, x := range ranges {
				a := intBinop(token.GEQ, r, mkInt(32, true, uint64(x.lo))).(Bool)
				b := intBinop(token.LEQ, r, mkInt(32, true, uint64(x.hi))).(Bool)
				cond = bor(cond, band(a, b))
			}
			return Bool{C: e.decide(cond)}
		}
	}
	class("IsLetter", unicode.IsLetter)
	class("IsDigit", unicode.IsDigit)
	class("IsSpace", unicode.IsSpace)
}

// concretizeStr: the string with every symbolic byte concretised (a fork per
// feasible value; meant for strings whose bytes the path has already pinned).
func (e *Exec) concretizeStr(v value) string {
	if s, ok := concStr(v); ok {
		return s
	}
	bs := strBytes(v)
	out := make([]byte, len(bs))
	for i, b := range bs {
		if b.X != nil {
			panic(inconclusive{"concretising formatted text"})
		}
		out[i] = byte(e.concretizeUpTo(b, 256).C)
	}
	return string(out)
}

func init() {
	stubs["time.ParseDuration"] = func(e *Exec, fn *ssa.Function, args []value) value {
		d, err := time.ParseDuration(e.concretizeStr(args[0]))
		if err != nil {
			return tuple{mkI64(0), e.newError(err.Error(), nil)}
		}
		return tuple{mkI64(int64(d)), iface{}}
	}
}

// regexp/syntax (used by the mtail type checker): patterns are parsed by the
// real package on the concretised pattern text; the tree is copied into
// engine values (fields Op, Flags, Sub, Rune, Min, Max, Cap, Name), with a
// side table back to the native tree for the methods.
func (e *Exec) reConv(re *syntax.Regexp, pt *types.Pointer) *value {
	if re == nil {
		return nil
	}
	st := zero(pt.Elem()).(structure)
	set := func(f string, v value) {
		if i := structField(pt.Elem(), f); i >= 0 {
			st[i] = v
		}
	}
	set("Op", Int{W: 8, C: uint64(re.Op)})
	set("Flags", Int{W: 16, C: uint64(re.Flags)})
	subs := make([]value, len(re.Sub))
	for i, s := range re.Sub {
		subs[i] = e.reConv(s, pt)
	}
	set("Sub", subs)
	runes := make([]value, len(re.Rune))
	for i, r := range re.Rune {
		runes[i] = mkInt(32, true, uint64(r))
	}
	set("Rune", runes)
	set("Min", mkI64(int64(re.Min)))
	set("Max", mkI64(int64(re.Max)))
	set("Cap", mkI64(int64(re.Cap)))
	set("Name", re.Name)
	p := new(value)
	*p = st
	if e.reNative == nil {
		e.reNative = map[*value]*syntax.Regexp{}
	}
	e.reNative[p] = re
	return p
}

func init() {
	native := func(e *Exec, v value) *syntax.Regexp {
		p, _ := v.(*value)
		re := e.reNative[p]
		if re == nil {
			panic(inconclusive{"regexp/syntax method on a tree that was not parsed through the engine's stub"})
		}
		return re
	}
	stubs["regexp/syntax.Parse"] = func(e *Exec, fn *ssa.Function, args []value) value {
		pt := fn.Signature.Results().At(0).Type().(*types.Pointer)
		re, err := syntax.Parse(e.concretizeStr(args[0]), syntax.Flags(args[1].(Int).C))
		if err != nil {
			return tuple{(*value)(nil), e.newError(err.Error(), nil)}
		}
		return tuple{e.reConv(re, pt), iface{}}
	}
	stubs["(*regexp/syntax.Regexp).Simplify"] = func(e *Exec, fn *ssa.Function, args []value) value {
		return e.reConv(native(e, args[0]).Simplify(), fn.Signature.Results().At(0).Type().(*types.Pointer))
	}
	stubs["(*regexp/syntax.Regexp).CapNames"] = func(e *Exec, fn *ssa.Function, args []value) value {
		var out []value
		for _, n := range native(e, args[0]).CapNames() {
			out = append(out, n)
		}
		return out
	}
	stubs["(*regexp/syntax.Regexp).MaxCap"] = func(e *Exec, fn *ssa.Function, args []value) value {
		return mkI64(int64(native(e, args[0]).MaxCap()))
	}
	stubs["(*regexp/syntax.Regexp).String"] = func(e *Exec, fn *ssa.Function, args []value) value {
		return native(e, args[0]).String()
	}
}
