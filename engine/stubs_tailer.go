package main

import (
	"go/types"
	"net/url"
	"path/filepath"
	"regexp"
	"sort"
	"strings"

	"golang.org/x/tools/go/ssa"
)

// Environment of the tailer (C18): URL parsing and path functions on concrete
// strings are done by the real packages; filepath.Glob lists the model file
// system; a FileMode is the directory bit or a regular file.

func structField(t types.Type, name string) int {
	st := t.Underlying().(*types.Struct)
	for i := 0; i < st.NumFields(); i++ {
		if st.Field(i).Name() == name {
			return i
		}
	}
	return -1
}

func init() {
	stubs["net/url.Parse"] = func(e *Exec, fn *ssa.Function, args []value) value {
		s, ok := concStr(args[0])
		if !ok {
			panic(inconclusive{"url.Parse of a symbolic string"})
		}
		u, err := url.Parse(s)
		pt := fn.Signature.Results().At(0).Type().(*types.Pointer)
		if err != nil {
			return tuple{(*value)(nil), e.newError(err.Error(), nil)}
		}
		st := zero(pt.Elem()).(structure)
		set := func(f, v string) { st[structField(pt.Elem(), f)] = v }
		set("Scheme", u.Scheme)
		set("Opaque", u.Opaque)
		set("Host", u.Host)
		set("Path", u.Path)
		set("RawPath", u.RawPath)
		set("RawQuery", u.RawQuery)
		set("Fragment", u.Fragment)
		p := new(value)
		*p = st
		return tuple{p, iface{}}
	}
	stubs["(*net/url.URL).String"] = func(e *Exec, fn *ssa.Function, args []value) value { return "<url>" }
	stubs["path/filepath.Abs"] = func(e *Exec, fn *ssa.Function, args []value) value {
		s, ok := concStr(args[0])
		if !ok || !strings.HasPrefix(s, "/") {
			panic(inconclusive{"filepath.Abs of a symbolic or relative path"})
		}
		return tuple{filepath.Clean(s), iface{}}
	}
	stubs["path/filepath.Glob"] = func(e *Exec, fn *ssa.Function, args []value) value {
		pat, ok := concStr(args[0])
		if !ok {
			panic(inconclusive{"filepath.Glob of a symbolic pattern"})
		}
		dir, file := filepath.Split(pat)
		if filepath.Clean(dir) != vfsRootPath {
			panic(inconclusive{"filepath.Glob outside the model directory"})
		}
		if _, err := filepath.Match(file, ""); err != nil {
			return tuple{[]value(nil), e.newError(err.Error(), nil)}
		}
		var names []string
		for _, n := range e.fs.nodes {
			nm, ok := concStr(n.name)
			if !ok {
				panic(inconclusive{"filepath.Glob over symbolic file names"})
			}
			if m, _ := filepath.Match(file, nm); m {
				names = append(names, nm)
			}
		}
		sort.Strings(names)
		var out []value
		for _, nm := range names {
			out = append(out, filepath.Join(filepath.Clean(dir), nm))
		}
		return tuple{out, iface{}}
	}
	stubs["(io/fs.FileMode).IsRegular"] = func(e *Exec, fn *ssa.Function, args []value) value {
		return Bool{C: args[0].(Int).C&0x8F280000 == 0}
	}
	stubs["(io/fs.FileMode).IsDir"] = func(e *Exec, fn *ssa.Function, args []value) value {
		return Bool{C: args[0].(Int).C&(1<<31) != 0}
	}
	stubs["regexp.Compile"] = func(e *Exec, fn *ssa.Function, args []value) value {
		s := argStr(args[0])
		if _, err := regexp.Compile(s); err != nil {
			return tuple{(*value)(nil), e.newError(err.Error(), nil)}
		}
		p := new(value)
		*p = "regexp:" + s
		return tuple{p, iface{}}
	}
	stubs["(*regexp.Regexp).MatchString"] = func(e *Exec, fn *ssa.Function, args []value) value {
		re := args[0].(*value)
		if pat, ok := (*re).(string); ok && strings.HasPrefix(pat, "regexp:") {
			if subj, ok := concStr(args[1]); ok {
				if rx, err := regexp.Compile(strings.TrimPrefix(pat, "regexp:")); err == nil {
					return Bool{C: rx.MatchString(subj)}
				}
			}
		}
		panic(inconclusive{"regexp MatchString on a symbolic subject"})
	}
}
