package main

import (
	"go/types"
	"net/url"
	"path/filepath"
	"regexp"
	"sort"
	"strings"

	"golang.org/x/tools/go/ssa"
)

// Environment of the tailer (C18): URL parsing and path functions on concrete
// strings are done by the real packages; filepath.Glob lists the model file
// system; a FileMode is the directory bit or a regular file.

func structField(t types.Type, name string) int {
	st := t.Underlying().(*types.Struct)
	for i := 0; i < st.NumFields(); i++ {
		if st.Field(i).Name() == name {
			return i
		}
	}
	return -1
}

func init() {
	stubs["net/url.Parse"] = func(e *Exec, fn *ssa.Function, args []value) value {
		pt := fn.Signature.Results().At(0).Type().(*types.Pointer)
		s, ok := concStr(args[0])
		if !ok {
			return e.urlParseSym(strBytes(args[0]), pt)
		}
		u, err := url.Parse(s)
		if err != nil {
			return tuple{(*value)(nil), e.newError(err.Error(), nil)}
		}
		st := zero(pt.Elem()).(structure)
		set := func(f, v string) { st[structField(pt.Elem(), f)] = v }
		set("Scheme", u.Scheme)
		set("Opaque", u.Opaque)
		set("Host", u.Host)
		set("Path", u.Path)
		set("RawPath", u.RawPath)
		set("RawQuery", u.RawQuery)
		set("Fragment", u.Fragment)
		p := new(value)
		*p = st
		return tuple{p, iface{}}
	}
	stubs["(*net/url.URL).String"] = func(e *Exec, fn *ssa.Function, args []value) value { return "<url>" }
	stubs["path/filepath.Abs"] = func(e *Exec, fn *ssa.Function, args []value) value {
		s, ok := concStr(args[0])
		if !ok {
			// <model directory>/<name>: already absolute and clean when the
			// name holds no '/' and is neither "." nor ".."
			name, under := e.fsSplit(args[0])
			if !under {
				panic(inconclusive{"filepath.Abs of a symbolic path outside the model directory"})
			}
			bs := strBytes(name)
			for _, b := range bs {
				if e.cmpByte(b, mkByte('/')) {
					panic(inconclusive{"filepath.Abs of a symbolic path with a nested component"})
				}
			}
			if len(bs) == 0 || e.decide(bytesEq(bs, strBytes("."))) || e.decide(bytesEq(bs, strBytes(".."))) {
				panic(inconclusive{"filepath.Abs of a symbolic path naming . or .."})
			}
			return tuple{args[0], iface{}}
		}
		if !strings.HasPrefix(s, "/") {
			panic(inconclusive{"filepath.Abs of a relative path"})
		}
		return tuple{filepath.Clean(s), iface{}}
	}
	stubs["path/filepath.Glob"] = func(e *Exec, fn *ssa.Function, args []value) value {
		pat, ok := concStr(args[0])
		if !ok {
			panic(inconclusive{"filepath.Glob of a symbolic pattern"})
		}
		dir, file := filepath.Split(pat)
		if filepath.Clean(dir) != vfsRootPath {
			panic(inconclusive{"filepath.Glob outside the model directory"})
		}
		if _, err := filepath.Match(file, ""); err != nil {
			return tuple{[]value(nil), e.newError(err.Error(), nil)}
		}
		// the real filepath.Match (interpreted from its source) decides for
		// every entry; results in name order, as Glob sorts them
		matchFn := e.prog.ImportedPackage("path/filepath").Func("Match")
		var hits []*fsNode
		for _, n := range e.fs.nodes {
			r := e.call(matchFn, []value{file, n.name}).(tuple)
			if b := r[0].(Bool); (b.T == nil && b.C) || (b.T != nil && e.decide(b)) {
				hits = append(hits, n)
			}
		}
		sort.SliceStable(hits, func(i, j int) bool { return e.strLess(strBytes(hits[i].name), strBytes(hits[j].name)) })
		var out []value
		for _, n := range hits {
			out = append(out, mkStr(append(strBytes(filepath.Clean(dir)+"/"), strBytes(n.name)...)))
		}
		return tuple{out, iface{}}
	}
	stubs["(io/fs.FileMode).IsRegular"] = func(e *Exec, fn *ssa.Function, args []value) value {
		return Bool{C: args[0].(Int).C&0x8F280000 == 0}
	}
	stubs["(io/fs.FileMode).IsDir"] = func(e *Exec, fn *ssa.Function, args []value) value {
		return Bool{C: args[0].(Int).C&(1<<31) != 0}
	}
	stubs["regexp.Compile"] = func(e *Exec, fn *ssa.Function, args []value) value {
		s := argStr(args[0])
		if _, err := regexp.Compile(s); err != nil {
			return tuple{(*value)(nil), e.newError(err.Error(), nil)}
		}
		p := new(value)
		*p = "regexp:" + s
		return tuple{p, iface{}}
	}
	stubs["(*regexp.Regexp).MatchString"] = func(e *Exec, fn *ssa.Function, args []value) value {
		re := args[0].(*value)
		if pat, ok := (*re).(string); ok && strings.HasPrefix(pat, "regexp:") {
			if subj, ok := concStr(args[1]); ok {
				if rx, err := regexp.Compile(strings.TrimPrefix(pat, "regexp:")); err == nil {
					return Bool{C: rx.MatchString(subj)}
				}
			}
		}
		if pat, ok := (*re).(string); ok {
			if r, ok := e.anchoredLiteralMatch(strings.TrimPrefix(pat, "regexp:"), strBytes(args[1])); ok {
				return r
			}
		}
		panic(inconclusive{"regexp MatchString on a symbolic subject"})
	}
}

// urlParseSym is url.Parse for a path that starts with a concrete '/' and
// holds symbolic bytes: no scheme; a control character is an error; the path
// ends at the first '?' or '#'.  Escapes ('%') are not modelled.
func (e *Exec) urlParseSym(bs []Int, pt *types.Pointer) value {
	if len(bs) == 0 || !bs[0].isConc() || byte(bs[0].C) != '/' {
		panic(inconclusive{"url.Parse of a symbolic string that does not start with /"})
	}
	end := len(bs)
	for i, b := range bs {
		if b.X != nil {
			panic(inconclusive{"url.Parse of formatted text"})
		}
		if b.isConc() {
			c := byte(b.C)
			if c < 0x20 || c == 0x7f {
				return tuple{(*value)(nil), e.newError("net/url: invalid control character in URL", nil)}
			}
			if c == '%' {
				panic(inconclusive{"url.Parse of a symbolic string with an escape"})
			}
			if (c == '?' || c == '#') && end == len(bs) {
				end = i
			}
			continue
		}
		if e.decide(bor(byteIn(b, 0x00, 0x1f), byteIn(b, 0x7f, 0x7f))) {
			return tuple{(*value)(nil), e.newError("net/url: invalid control character in URL", nil)}
		}
		if e.cmpByte(b, mkByte('%')) {
			panic(inconclusive{"url.Parse of a symbolic string with an escape"})
		}
		if end == len(bs) && (e.cmpByte(b, mkByte('?')) || e.cmpByte(b, mkByte('#'))) {
			end = i
		}
	}
	st := zero(pt.Elem()).(structure)
	st[structField(pt.Elem(), "Path")] = mkStr(append([]Int{}, bs[:end]...))
	p := new(value)
	*p = st
	return tuple{p, iface{}}
}

// anchoredLiteralMatch decides regular expressions of the form ^lit, lit$,
// ^lit$ (lit: plain characters and escaped punctuation) on symbolic bytes.
func (e *Exec) anchoredLiteralMatch(pat string, subj []Int) (value, bool) {
	pre := strings.HasPrefix(pat, "^")
	suf := strings.HasSuffix(pat, "$") && !strings.HasSuffix(pat, "\\$")
	body := pat
	if pre {
		body = body[1:]
	}
	if suf {
		body = body[:len(body)-1]
	}
	var lit []byte
	for i := 0; i < len(body); i++ {
		c := body[i]
		if c == '\\' && i+1 < len(body) && strings.IndexByte(".$^*+?()[]{}|\\/-", body[i+1]) >= 0 {
			i++
			lit = append(lit, body[i])
			continue
		}
		if strings.IndexByte(".$^*+?()[]{}|\\", c) >= 0 {
			return nil, false
		}
		lit = append(lit, c)
	}
	if !pre && !suf {
		return nil, false
	}
	n := len(lit)
	if len(subj) < n || (pre && suf && len(subj) != n) {
		return Bool{C: false}, true
	}
	if pre {
		return Bool{C: e.decide(bytesEq(subj[:n], strBytes(string(lit))))}, true
	}
	return Bool{C: e.decide(bytesEq(subj[len(subj)-n:], strBytes(string(lit))))}, true
}
