package main

import (
	"fmt"
	"math/rand"
	"os"
	"testing"
	"time"
)

// Differential validation of tpFormula against the native time.Parse.
func TestTimeParseFormula(t *testing.T) {
	layouts := []string{"20060102", "02012006", "2006-01-02", "Jan _2 15:04:05", "2006/01/02 15:04:05", "Jan _2 15:04:05 2006", "15:04:05", "02 Jan 2006", "Jan _2 15:04:05 -0700", "2006-01-02 15:04 -0700"}
	rng := rand.New(rand.NewSource(7))
	s := NewSolver(20000, "z3", "-in")
	defer s.Close()
	if lf := os.Getenv("TP_LOG"); lf != "" {
		f, _ := os.Create(lf)
		s.log = f
	}
	total, okCount := 0, 0
	for _, layout := range layouts {
		// candidate strings: formatted random instants, mutated
		var cands []string
		for i := 0; i < 150; i++ {
			zone := time.FixedZone("", (rng.Intn(49)-24)*1800)
			tm := time.Date(rng.Intn(2300), time.Month(1+rng.Intn(12)), 1+rng.Intn(31), rng.Intn(24), rng.Intn(60), rng.Intn(60), 0, zone)
			v := tm.Format(layout)
			cands = append(cands, v)
			for k := 0; k < 6; k++ {
				bs := []byte(v)
				for m := 0; m <= rng.Intn(2); m++ {
					if len(bs) == 0 {
						break
					}
					p := rng.Intn(len(bs))
					switch rng.Intn(6) {
					case 0:
						bs[p] = byte('0' + rng.Intn(10))
					case 1:
						bs[p] = ' '
					case 2:
						bs[p] = ".,:-/aJjFbDeC"[rng.Intn(13)]
					case 3:
						bs = append(bs[:p], bs[p+1:]...)
					case 4:
						bs = append(bs[:p], append([]byte{byte('0' + rng.Intn(10))}, bs[p:]...)...)
					case 5:
						bs = append(bs[:p], append([]byte{" .,"[rng.Intn(3)]}, bs[p:]...)...)
					}
				}
				cands = append(cands, string(bs))
			}
		}
		for _, v := range cands {
			if len(v) == 0 {
				continue
			}
			total++
			var bt []string
			s.Send("(reset)")
			for i := range v {
				n := fmt.Sprintf("b%d", i)
				s.Send(fmt.Sprintf("(declare-const %s (_ BitVec 8))", n))
				s.Send(fmt.Sprintf("(assert (= %s %s))", n, bvLit(uint64(v[i]), 8)))
				bt = append(bt, n)
			}
			defs, okT, fields, sup := tpFormula(layout, bt, "tpd")
			if !sup {
				t.Fatalf("layout %q unsupported", layout)
			}
			for _, d := range defs {
				s.Send(d)
			}
			tm, err := time.Parse(layout, v)
			s.Send("(assert " + okT + ")")
			r := s.Check()
			if (r == "sat") != (err == nil) || r == "unknown" {
				t.Errorf("layout %q value %q: formula %s, native err=%v", layout, v, r, err)
			}
			if r == "sat" && err == nil {
				okCount++
				_, zoff := tm.Zone()
				want := map[string]int{"year": tm.Year(), "month": int(tm.Month()), "day": tm.Day(), "hour": tm.Hour(), "min": tm.Minute(), "sec": tm.Second(), "nsec": tm.Nanosecond(), "zoff": zoff}
				for k, w := range want {
					got := int(int32(parseBV(s.GetValue(fields[k]))))
					if got != w {
						t.Errorf("layout %q value %q: field %s = %d, native %d", layout, v, k, got, w)
					}
				}
			}
		}
	}
	t.Logf("%d strings, %d accepted", total, okCount)
	if okCount < 500 || total-okCount < 500 {
		t.Errorf("weak sample: %d of %d accepted", okCount, total)
	}
}
