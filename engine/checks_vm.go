package main

import (
	"fmt"
	"math"
	"strings"
)

const vmPkg = "github.com/google/mtail/internal/runtime/vm"

var vmAssumptions = []string{
	"program text -> bytecode is done natively by the working tree's own compiler (compile bridge built into the mtail module by overlay); the resulting code.Object is rendered as Go source and enters the executor through SSA; program structure is never symbolic",
	"regexp matching is a harness-controlled table: per pattern, whether it matches and the capture strings (symbolic bytes constrained to the pattern's character class); the regexp engine itself is outside the claim",
	"groupcache/lru and container/list are interpreted from source; glog, prometheus self-metrics and runtime/debug are no-ops; expvar is a counter table",
}

type c02Prog struct {
	name     string
	op       string
	tok      string
	lt, rt   string // "int" / "float"
}

func c02Programs() []c02Prog {
	ops := [][2]string{{"+", "parser.PLUS"}, {"-", "parser.MINUS"}, {"*", "parser.MUL"}, {"/", "parser.DIV"}, {"%", "parser.MOD"}, {"**", "parser.POW"}}
	names := map[string]string{"+": "add", "-": "sub", "*": "mul", "/": "div", "%": "mod", "**": "pow"}
	var out []c02Prog
	for _, o := range ops {
		for _, lt := range []string{"int", "float"} {
			for _, rt := range []string{"int", "float"} {
				out = append(out, c02Prog{name: fmt.Sprintf("%s_%s_%s", names[o[0]], lt, rt), op: o[0], tok: o[1], lt: lt, rt: rt})
			}
		}
	}
	return out
}

const (
	c02SentIntL   = "1234561"
	c02SentIntR   = "1234562"
	c02SentFloatL = "1234561.5"
	c02SentFloatR = "1234562.5"
)

func fbitsStr(f float64) string { return fmt.Sprint(math.Float64bits(f)) }

// c02Gen compiles the 24 `g = A op B` programs without optimisation and
// generates the object constructors plus one symbolic and one grid entry per
// program.
func c02Gen() (map[string]string, []c02Prog, error) {
	progs := c02Programs()
	var ins []bridgeIn
	for _, pr := range progs {
		l, r := c02SentIntL, c02SentIntR
		if pr.lt == "float" {
			l = c02SentFloatL
		}
		if pr.rt == "float" {
			r = c02SentFloatR
		}
		ins = append(ins, bridgeIn{Name: "prog", NoOpt: true, Src: fmt.Sprintf("gauge g\n/x/ {\n  g = %s %s %s\n}\n", l, pr.op, r)})
	}
	outs, err := runBridge(ins)
	if err != nil {
		return nil, nil, err
	}
	var b strings.Builder
	b.WriteString(genHeader("github.com/google/mtail/internal/runtime/compiler/ast", "github.com/google/mtail/internal/runtime/compiler/parser"))
	for i, pr := range progs {
		o := outs[i]
		if o.Errors != "" {
			return nil, nil, fmt.Errorf("program %s rejected by the compiler without optimisation: %s", pr.name, o.Errors)
		}
		sents := []sentinel{}
		lk, lv := "int64", c02SentIntL
		if pr.lt == "float" {
			lk, lv = "float64", fbitsStr(1234561.5)
		}
		rk, rv := "int64", c02SentIntR
		if pr.rt == "float" {
			rk, rv = "float64", fbitsStr(1234562.5)
		}
		sents = append(sents, sentinel{lk, lv, "a"}, sentinel{rk, rv, "b"})
		src := genObjectFunc("verifObjC02_"+pr.name, o, sents)
		if !strings.Contains(src, ", a, ") || !strings.Contains(src, ", b, ") {
			return nil, nil, fmt.Errorf("program %s: sentinel operands not found in the unoptimised bytecode", pr.name)
		}
		b.WriteString(src)
		lit := func(t, v string) string {
			if t == "int" {
				return "&ast.IntLit{I: " + v + "}"
			}
			return "&ast.FloatLit{F: " + v + "}"
		}
		nd := func(t, tag string) string {
			if t == "int" {
				return "nondetInt64(\"" + tag + "\")"
			}
			return "nondetFloat64(\"" + tag + "\")"
		}
		gr := func(t, tag string) string {
			if t == "int" {
				return "c02Int(\"" + tag + "\")"
			}
			return "c02Float(\"" + tag + "\")"
		}
		fmt.Fprintf(&b, "func HarnessC02_%s() {\n\ta := %s\n\tb := %s\n\tc02Check(verifObjC02_%s(a, b), %s, %s, %s, b == 0)\n}\n\n",
			pr.name, nd(pr.lt, "a"), nd(pr.rt, "b"), pr.name, pr.tok, lit(pr.lt, "a"), lit(pr.rt, "b"))
		fmt.Fprintf(&b, "func HarnessC02Grid_%s() {\n\ta := %s\n\tb := %s\n\tc02Check(verifObjC02_%s(a, b), %s, %s, %s, b == 0)\n}\n\n",
			pr.name, gr(pr.lt, "a"), gr(pr.rt, "b"), pr.name, pr.tok, lit(pr.lt, "a"), lit(pr.rt, "b"))
	}
	return map[string]string{"c02_objects.go": b.String()}, progs, nil
}

func init() {
	register(&CheckDef{ID: "C02", Level: "translation_validation", Only: []string{"C02."},
		Jobs: func(tier string) []JobDef {
			gen, progs, err := c02Gen()
			if err != nil {
				return []JobDef{{Name: "bridge-failed: " + err.Error(), Pkg: vmPkg, Dir: "internal/runtime/vm", Entry: "missing"}}
			}
			var jobs []JobDef
			for _, pr := range progs {
				jobs = append(jobs, JobDef{Name: "fold-" + pr.name, Pkg: vmPkg, Dir: "internal/runtime/vm", Harness: []string{"vm/c02.go"}, GenFiles: gen,
					EngineOnly: []string{"vm/vm_engine.go"}, NativeOnly: []string{"vm/vm_native.go"},
					Entry: "HarnessC02_" + pr.name, Substs: vmSubsts,
					Bound: fmt.Sprintf("`g = A %s B` with A any %s literal and B any %s literal (all int64 / all float64 values incl. NaN, infinities, zeros)", pr.op, pr.lt, pr.rt)})
			}
			for _, pr := range progs {
				jobs = append(jobs, JobDef{Name: "grid-" + pr.name, Pkg: vmPkg, Dir: "internal/runtime/vm", Harness: []string{"vm/c02.go"}, GenFiles: gen,
					EngineOnly: []string{"vm/vm_engine.go"}, NativeOnly: []string{"vm/vm_native.go"},
					Entry: "HarnessC02Grid_" + pr.name, Substs: vmSubsts,
					Bound: fmt.Sprintf("`g = A %s B` on a grid of 15 boundary int64 / 10 boundary float64 literal values, executed concretely by the same engine (supplement: math.Pow and math.Mod are uninterpreted in the symbolic job)", pr.op)})
			}
			return jobs
		},
		Assumptions: append(append([]string{
			"math.Pow and math.Mod are uninterpreted functions in the symbolic jobs (both sides must call them on the same arguments); float->int conversion out of range is the amd64 result; the concrete grid jobs evaluate them natively",
			"nested constant expressions follow from the single-step result because the optimiser folds bottom-up and each step preserves (type, value); the checker and code generator treat literal values opaquely apart from the zero test (the sentinel substitution depends on it)",
		}, vmAssumptions...), baseAssumptions...),
		Outside: []string{"constant folds in pattern-concatenation context", "operators other than + - * / % **"}})
}

// native replay of VM harnesses: the two FindStringSubmatch call sites in
// vm.go are routed to the harness match table, as in the engine.
var vmSubsts = []Subst{
	{File: "internal/runtime/vm/vm.go", Old: "v.re[index].FindStringSubmatch(v.input.Line)", New: "verifFindStringSubmatch(v.re[index], v.input.Line)"},
	{File: "internal/runtime/vm/vm.go", Old: "v.re[index].FindStringSubmatch(line)", New: "verifFindStringSubmatch(v.re[index], line)"},
	{File: "internal/runtime/vm/vm.go", Old: "time.Now()", New: "verifNow()"},
	// the datum's own fallback to the wall clock reads the same clock
	{File: "internal/metrics/datum/datum.go", Old: "var zeroTime time.Time", New: "var zeroTime time.Time\n\nvar VerifNow = time.Now"},
	{File: "internal/metrics/datum/datum.go", Old: "time.Now().UTC().UnixNano()", New: "VerifNow().UTC().UnixNano()"},
}

// ---- VM program corpus ----

type vmProg struct {
	Name  string
	Src   string
	Quick bool
	Extra string // further arguments of the family's check function
}

func vmCorpus() []vmProg {
	return []vmProg{
		{"inc", "counter c\n/K1=(\\d+)/ {\n  c++\n}\n", true, ""},
		{"arith", "counter c\ngauge g\n/K1=(\\d+)/ {\n  c += $1\n  g = $1 * 2 + 1\n}\n", true, ""},
		{"dim", "counter c by k\n/K1=(\\w+)/ {\n  c[$1]++\n}\n", true, ""},
		{"elseother", "counter a\ncounter b\ncounter o\n/K1=(\\d+)/ {\n  a++\n} else {\n  b++\n}\notherwise {\n  o++\n}\n", true, ""},
		{"nestedother", "counter a\ncounter b\ncounter c\n/K1=(\\d+)/ {\n  a++\n} else {\n  /K2=(\\d+)/ {\n    b++\n  }\n  otherwise {\n    c++\n  }\n}\n", true, ""},
		{"del", "counter c by k\n/K1=(\\w+)/ {\n  c[$1]++\n}\n/K2=(\\w+)/ {\n  del c[$1]\n}\n/K3=(\\w+)/ {\n  del c[$1] after 1h\n}\n", true, ""},
		{"floatcap", "gauge g\n/K1=(\\d+\\.\\d+)/ {\n  g = $1\n}\n", true, ""},
		{"text", "text t\n/K1=(\\S+)/ {\n  t = $1\n}\n", true, ""},
		{"div", "gauge g\ngauge h\n/K1=(\\d+) K2=(\\d+)/ {\n  g = $1 / $2\n  h = $1 % $2\n}\n", true, ""},
		{"shift", "gauge g\ngauge h\n/K1=(\\d+) K2=(\\d+)/ {\n  g = $1 << $2\n  h = $1 >> $2\n}\n", false, ""},
		{"cmp", "counter c\n/K1=(\\d+)/ && $1 > 5 {\n  c++\n}\n", true, ""},
		{"logic", "counter c\ncounter d\ngauge x\n/K1=(\\d+)/ && $1 > 5 || x == 3 {\n  c++\n}\n/K2=(\\d+)/ && x != 0 {\n  d++\n}\n", false, ""},
		{"len", "gauge g\n/K1=(\\w+)/ {\n  g = len($1)\n}\n", false, ""},
		{"tolower", "counter c by k\n/K1=(\\w+)/ {\n  c[tolower($1)]++\n}\n", false, ""},
		{"strtol", "gauge g\n/K1=(\\w+)/ {\n  g = strtol($1, 16)\n}\n", false, ""},
		{"conv", "gauge g\ngauge f\ntext s\n/K1=(\\S+) K2=(\\d+)/ {\n  g = int($1)\n  f = float($1)\n  s = string($2)\n}\n", true, ""},
		{"settime", "gauge g\n/K1=(\\d+)/ {\n  settime($1)\n  g = timestamp()\n}\n", true, ""},
		{"settimelen", "gauge g\n/K1=(\\w+)/ {\n  settime(len($1))\n  g = timestamp()\n}\n", true, ""},
		{"strptime", "gauge g\n/K1=(\\S+)/ {\n  strptime($1, \"2006-01-02\")\n  g = timestamp()\n}\n", true, ""},
		{"strptime2", "gauge g\ngauge h\n/K1=(\\S+)/ {\n  strptime($1, \"20060102\")\n  g = timestamp()\n}\n/K2=(\\S+)/ {\n  strptime($1, \"02012006\")\n  h = timestamp()\n}\n", true, ""},
		{"stop", "counter a\ncounter b\n/K1=(\\d+)/ {\n  a++\n  stop\n}\n/K2=(\\d+)/ {\n  b++\n}\n", true, ""},
		{"deco", "counter a\ncounter b\ndef deco {\n  /K1=(\\d+)/ {\n    a++\n    next\n  }\n}\n@deco {\n  b++\n}\n", true, ""},
		{"filename", "counter c by f\n/K1=(\\d+)/ {\n  c[getfilename()]++\n}\n", false, ""},
		{"histo", "histogram h buckets 1, 2, 4\n/K1=(\\d+)/ {\n  h = $1\n}\n", false, ""},
		{"smatch", "counter c\n/K1=(\\w+)/ {\n  $1 =~ /a/ {\n    c++\n  }\n}\n", false, ""},
		{"subst", "text t\n/K1=(\\w+)/ {\n  t = subst(\"a\", \"b\", $1)\n}\n", false, ""},
		{"pow", "gauge g\n/K1=(\\d+)/ {\n  g = $1 ** 2\n}\n", false, ""},
		{"bitops", "gauge g\n/K1=(\\d+) K2=(\\d+)/ {\n  g = ($1 & $2) | ($1 ^ 3)\n}\n", false, ""},
		{"orcap", "counter c by k\nconst TAGGED /K2=(?P<t>\\w+)/\n/K1=(\\w+)/ {\n  $1 == \"a\" || TAGGED {\n    c[$t]++\n  }\n}\n", true, ""},
		{"stoplast", "counter a\ncounter b\n/K1=(\\d+)/ {\n  a++\n} else {\n  b++\n  stop\n}\n", true, ""},
		{"errlast", "counter a\ngauge g\n/K1=(\\d+)/ {\n  a++\n} else {\n  /K2=(\\S+)/ {\n    g = int($1)\n  }\n}\n", true, ""},
		{"toplevel", "counter a\ncounter d\n/K1=(\\d+)/ {\n  a++\n}\nd++\nstop\n", true, ""},
		{"powcaps", "gauge g\n/K1=(-?\\d+) K2=(-?\\d+)/ {\n  g = $1 ** $2\n}\n", true, ""},
		{"floataddint", "gauge f\n/K1=(\\d+\\.\\d+) K2=(\\d+)/ {\n  f = $1\n  f += $2\n}\n", true, ""},
		{"settimemix", "gauge h\ncounter c\n/K1=(\\d+)/ {\n  settime($1)\n}\n/K2=(\\d+)/ {\n  h = timestamp()\n  c++\n}\n", true, ""},
		{"capother", "counter c by k\n/K1=(\\w+)/ {\n  c[$1]++\n} else {\n  c[$1]++\n}\n", true, ""},
	}
}

var capClass = map[string]int{
	`[0-9]+`: 0, `-?[0-9]+`: 1, `[0-9]+\.[0-9]+`: 2, `[0-9A-Z_a-z]+`: 3, `[^\t-\n\f-\r ]+`: 4, `[^\t\n\f\r ]+`: 4,
	`(?-s:.*)`: 5, `(?-s:.+)`: 5, `[a-z]+`: 6, `[0-9]{8}`: 7,
	`[0-9A-Z_a-z]{3} [ 0-9][0-9] [0-9][0-9]:[0-9][0-9]:[0-9][0-9]`: 8,
	`[0-9A-Z_a-z]{3} [ 0-9][0-9] [0-9][0-9]:[0-9][0-9]:[0-9][0-9] [\+\-][0-9]{4}`: 9,
}

func capClasses(pattern string) ([]int, error) {
	re, err := syntaxParse(pattern)
	if err != nil {
		return nil, err
	}
	var out []int
	var walk func(r *syntaxRegexp) error
	walk = func(r *syntaxRegexp) error {
		if r.Op == syntaxOpCapture {
			s := r.Sub[0].String()
			c, ok := capClass[s]
			if !ok {
				return fmt.Errorf("capture group %q (normalised %q) has no symbolic class", pattern, s)
			}
			out = append(out, c)
		}
		for _, s := range r.Sub {
			if err := walk(s); err != nil {
				return err
			}
		}
		return nil
	}
	if err := walk(re); err != nil {
		return nil, err
	}
	return out, nil
}

// vmGen compiles the corpus (normal pipeline, optimisation on) and
// generates object constructors, capture tables and the entry functions of
// the given families.
func vmGen(progs []vmProg, families map[string]string) (map[string]string, error) {
	var ins []bridgeIn
	for _, pr := range progs {
		ins = append(ins, bridgeIn{Name: pr.Name, Src: pr.Src})
	}
	outs, err := runBridge(ins)
	if err != nil {
		return nil, err
	}
	var b strings.Builder
	b.WriteString(genHeader())
	for i, pr := range progs {
		o := outs[i]
		if o.Errors != "" {
			return nil, fmt.Errorf("corpus program %s is rejected by the compiler: %s", pr.Name, o.Errors)
		}
		b.WriteString(genObjectFunc("verifObj_"+pr.Name, o, nil))
		fmt.Fprintf(&b, "var verifCaps_%s = [][]int{", pr.Name)
		for _, re := range o.Regexps {
			cs, err := capClasses(re)
			if err != nil {
				return nil, err
			}
			b.WriteString("{")
			for _, c := range cs {
				fmt.Fprintf(&b, "%d, ", c)
			}
			b.WriteString("}, ")
		}
		b.WriteString("}\n\n")
		for fam, fn := range families {
			extra := ""
			if pr.Extra != "" {
				extra = ", " + pr.Extra
			}
			fmt.Fprintf(&b, "func Harness%s_%s() { %s(verifObj_%s, verifCaps_%s, %q%s) }\n\n", fam, pr.Name, fn, pr.Name, pr.Name, pr.Name, extra)
		}
	}
	return map[string]string{"vm_objects.go": b.String()}, nil
}

func vmJobs(tier, fam, fn string, caplen int, only func(vmProg) bool) []JobDef {
	corpus := vmCorpus()
	if tier == "thorough" {
		// the thorough tier also runs the quick program shapes of C01's
		// grammar (operators, scoping, builtins, dimensions, del, decorators)
		for _, s := range c01Shapes() {
			// (the two-key shape makes the history check compare label keys
			// holding two formatted numbers of different layouts: not decidable
			// by the string model, left to C01/C04)
			if s.Quick && !(fam == "VM05" && s.Name == "dim-two-keys-expr") {
				corpus = append(corpus, vmProg{Name: "g_" + strings.ReplaceAll(s.Name, "-", "_"), Src: s.Src})
			}
		}
	}
	return vmJobsOf(corpus, tier, fam, fn, caplen, only, []string{"vm/vmlib.go", "vm/c04.go"})
}

func vmJobsOf(corpus []vmProg, tier, fam, fn string, caplen int, only func(vmProg) bool, harness []string) []JobDef {
	var progs []vmProg
	for _, pr := range corpus {
		if (tier == "thorough" || pr.Quick) && (only == nil || only(pr)) {
			progs = append(progs, pr)
		}
	}
	gen, err := vmGen(progs, map[string]string{fam: fn})
	if err != nil {
		return []JobDef{{Name: "bridge-failed: " + err.Error(), Pkg: vmPkg, Dir: "internal/runtime/vm", Entry: "missing"}}
	}
	var jobs []JobDef
	for _, pr := range progs {
		jobs = append(jobs, JobDef{Name: fam + "-" + pr.Name, Pkg: vmPkg, Dir: "internal/runtime/vm",
			Harness: harness, GenFiles: gen,
			EngineOnly: []string{"vm/vm_engine.go"}, NativeOnly: []string{"vm/vm_native.go"},
			Entry: "Harness" + fam + "_" + pr.Name, Substs: vmSubsts, Params: p("caplen", caplen),
			Bound: fmt.Sprintf("captures up to %d bytes; ", caplen) + "program " + pr.Name + ": " + strings.ReplaceAll(strings.TrimSpace(pr.Src), "\n", " ; ") + " -- one line; every pattern independently matches or not; captures 1..2 symbolic bytes of the group's class; every metric holds an arbitrary value (dimensioned: zero or one label set with a symbolic one-letter label)"})
	}
	return jobs
}

func init() {
	as := append(append([]string{
		"match outcomes of different patterns are independent (the corpus uses disjoint marker tokens K1= K2= ...)",
		"strconv.ParseInt is an exact engine model for <=18 bytes base 10; strconv.ParseFloat, time.Parse, Time.Year, Time.AddDate are uninterpreted with native refinement of counterexamples; locations are not modelled",
	}, vmAssumptions...), baseAssumptions...)
	register(&CheckDef{ID: "C04", Level: "model_checking", Only: []string{"C04."}, Assumptions: as,
		Jobs:    func(tier string) []JobDef { return vmJobs(tier, "VM04", "vmCheckNoFault", 2, nil) },
		Outside: []string{"programs outside the corpus (program structure is enumerated, not symbolic)", "captures longer than 2 bytes", "more than one line (see C05)"}})
	register(&CheckDef{ID: "C05", Level: "model_checking", Only: []string{"C05."}, Assumptions: as,
		Jobs: func(tier string) []JobDef {
			if tier == "thorough" {
				return vmJobs(tier, "VM05", "vmCheckHistory", 2, nil)
			}
			return vmJobs(tier, "VM05", "vmCheckHistory", 1, func(pr vmProg) bool { return pr.Name != "conv" })
		},
		Outside: []string{"histories longer than one earlier line (the carried state after one line is the carried state the next line sees; longer histories can only add memo entries of the same form)", "timestamps taken from the wall clock are compared up to one hour", "programs outside the corpus"}})
}

func init() {
	as := append(append([]string{
		"expvar is a counter table; per-unit claim: log_lines_total per LineReader, prog_runtime_errors_total per processed line; the end-to-end reconciliation (lines_total vs all streams) is a whole-program property and outside",
	}, vmAssumptions...), baseAssumptions...)
	register(&CheckDef{ID: "C25", Level: "model_checking", Only: []string{"C25."}, Assumptions: as,
		Jobs: func(tier string) []JobDef {
			jobs := checks["C15"].Jobs(tier)
			jobs = append(jobs, vmJobs(tier, "VM04", "vmCheckNoFault", 2, nil)...)
			jobs = append(jobs, vmJobs(tier, "VM05", "vmCheckHistory", 1, func(pr vmProg) bool { return pr.Name != "conv" })...)
			jobs = append(jobs, loaderC14Jobs(tier)...)
			jobs = append(jobs, loaderC26Jobs(tier)[1])
			return jobs
		},
		Outside: []string{"lines_total vs the sum over all streams (whole program)", "log_count"}})
}

// ---- C07 ----

type c07Blk struct {
	Kind   string // "strptime", "settime", "none"
	Layout string
	Pat    string
}

type c07Prog struct {
	Name   string
	Blocks []c07Blk
	Quick  bool
}

func c07Progs() []c07Prog {
	d8 := `\d{8}`
	sys := `\w{3} [ \d]\d \d\d:\d\d:\d\d`
	return []c07Prog{
		{"two", []c07Blk{{"strptime", "20060102", d8}, {"strptime", "02012006", d8}}, true},
		{"syslog", []c07Blk{{"strptime", "Jan _2 15:04:05", sys}, {"none", "", ""}}, true},
		{"settime", []c07Blk{{"settime", "", ""}, {"none", "", ""}}, true},
		{"none", []c07Blk{{"none", "", ""}, {"strptime", "20060102", d8}, {"none", "", ""}}, true},
		{"zoned", []c07Blk{{"strptime", "Jan _2 15:04:05 -0700", sys + ` [+-]\d{4}`}, {"none", "", ""}}, false},
		{"mixed", []c07Blk{{"settime", "", ""}, {"strptime", "Jan _2 15:04:05", sys}, {"strptime", "20060102", d8}}, false},
	}
}

func c07Corpus() []vmProg {
	var out []vmProg
	for _, p := range c07Progs() {
		src := "counter c\ngauge g\n"
		useSrc := false
		for _, b := range p.Blocks {
			if b.Kind == "settime" {
				useSrc = true
			}
		}
		if useSrc {
			src += "gauge src\n"
		}
		desc := "[]c07Block{"
		for i, b := range p.Blocks {
			if b.Pat == "" {
				src += fmt.Sprintf("/K%d=x/ {\n", i+1)
			} else {
				src += fmt.Sprintf("/K%d=(%s)/ {\n", i+1, b.Pat)
			}
			switch b.Kind {
			case "strptime":
				src += fmt.Sprintf("  strptime($1, %q)\n", b.Layout)
				desc += fmt.Sprintf("{c07Strptime, %q}, ", b.Layout)
			case "settime":
				src += "  settime(src)\n"
				desc += "{c07Settime, \"\"}, "
			default:
				desc += "{c07None, \"\"}, "
			}
			src += "  g = timestamp()\n  c++\n}\n"
		}
		desc += "}"
		out = append(out, vmProg{Name: p.Name, Src: src, Quick: p.Quick, Extra: desc})
	}
	return out
}

func init() {
	as := append(append([]string{
		"time.Parse/ParseInLocation(layout, value[, zone]) are uninterpreted functions of the value bytes per (layout, zone, length); Time.Year and Time.AddDate(y,0,0) are uninterpreted functions of the wall-clock reading in the instant's zone; counterexample models are refined against the native functions; the code under test and the oracle must apply them to the same arguments",
		"zones: none, UTC+9 and UTC-3:30 (time.FixedZone); the process zone is UTC; one layout whose values carry their own numeric zone (-0700)",
		"the wall clock is one arbitrary instant in [2001, 2200) for the whole run (vClockFreeze): timestamp() and the datum stamp read the same clock",
	}, vmAssumptions...), baseAssumptions...)
	register(&CheckDef{ID: "C07", Level: "model_checking", Only: []string{"C07."}, Assumptions: as,
		Jobs: func(tier string) []JobDef {
			h := []string{"vm/vmlib.go", "vm/c07.go"}
			jobs := vmJobsOf(c07Corpus(), tier, "VM07", "vmCheckTime", 2, nil, h)
			jobs = append(jobs, vmJobsOf(c07Corpus(), tier, "VM07K", "vmCheckTimeKnown", 2, func(pr vmProg) bool { return pr.Name == "two" }, h)...)
			for i := range jobs {
				jobs[i].Params["prehas"] = 1
			}
			return jobs
		},
		Outside: []string{"layouts other than 20060102, 02012006, Jan _2 15:04:05, Jan _2 15:04:05 -0700", "IANA zones with transitions (time.LoadLocation)", "values of other lengths than the layout's", "the instant reserved to mean unset (settime: excluded by the property; strptime: listed known finding)"}})
}
