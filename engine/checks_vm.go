package main

import (
	"fmt"
	"math"
	"strings"
)

const vmPkg = "github.com/google/mtail/internal/runtime/vm"

var vmAssumptions = []string{
	"program text -> bytecode is done natively by the working tree's own compiler (compile bridge built into the mtail module by overlay); the resulting code.Object is rendered as Go source and enters the executor through SSA; program structure is never symbolic",
	"regexp matching is a harness-controlled table: per pattern, whether it matches and the capture strings (symbolic bytes constrained to the pattern's character class); the regexp engine itself is outside the claim",
	"groupcache/lru and container/list are interpreted from source; glog, prometheus self-metrics and runtime/debug are no-ops; expvar is a counter table",
}

type c02Prog struct {
	name     string
	op       string
	tok      string
	lt, rt   string // "int" / "float"
}

func c02Programs() []c02Prog {
	ops := [][2]string{{"+", "parser.PLUS"}, {"-", "parser.MINUS"}, {"*", "parser.MUL"}, {"/", "parser.DIV"}, {"%", "parser.MOD"}, {"**", "parser.POW"}}
	names := map[string]string{"+": "add", "-": "sub", "*": "mul", "/": "div", "%": "mod", "**": "pow"}
	var out []c02Prog
	for _, o := range ops {
		for _, lt := range []string{"int", "float"} {
			for _, rt := range []string{"int", "float"} {
				out = append(out, c02Prog{name: fmt.Sprintf("%s_%s_%s", names[o[0]], lt, rt), op: o[0], tok: o[1], lt: lt, rt: rt})
			}
		}
	}
	return out
}

const (
	c02SentIntL   = "1234561"
	c02SentIntR   = "1234562"
	c02SentFloatL = "1234561.5"
	c02SentFloatR = "1234562.5"
)

func fbitsStr(f float64) string { return fmt.Sprint(math.Float64bits(f)) }

// c02Gen compiles the 24 `g = A op B` programs without optimisation and
// generates the object constructors plus one symbolic and one grid entry per
// program.
func c02Gen() (map[string]string, []c02Prog, error) {
	progs := c02Programs()
	var ins []bridgeIn
	for _, pr := range progs {
		l, r := c02SentIntL, c02SentIntR
		if pr.lt == "float" {
			l = c02SentFloatL
		}
		if pr.rt == "float" {
			r = c02SentFloatR
		}
		ins = append(ins, bridgeIn{Name: "prog", NoOpt: true, Src: fmt.Sprintf("gauge g\n/x/ {\n  g = %s %s %s\n}\n", l, pr.op, r)})
	}
	outs, err := runBridge(ins)
	if err != nil {
		return nil, nil, err
	}
	var b strings.Builder
	b.WriteString(genHeader("github.com/google/mtail/internal/runtime/compiler/ast", "github.com/google/mtail/internal/runtime/compiler/parser"))
	for i, pr := range progs {
		o := outs[i]
		if o.Errors != "" {
			return nil, nil, fmt.Errorf("program %s rejected by the compiler without optimisation: %s", pr.name, o.Errors)
		}
		sents := []sentinel{}
		lk, lv := "int64", c02SentIntL
		if pr.lt == "float" {
			lk, lv = "float64", fbitsStr(1234561.5)
		}
		rk, rv := "int64", c02SentIntR
		if pr.rt == "float" {
			rk, rv = "float64", fbitsStr(1234562.5)
		}
		sents = append(sents, sentinel{lk, lv, "a"}, sentinel{rk, rv, "b"})
		src := genObjectFunc("verifObjC02_"+pr.name, o, sents)
		if !strings.Contains(src, ", a, ") || !strings.Contains(src, ", b, ") {
			return nil, nil, fmt.Errorf("program %s: sentinel operands not found in the unoptimised bytecode", pr.name)
		}
		b.WriteString(src)
		lit := func(t, v string) string {
			if t == "int" {
				return "&ast.IntLit{I: " + v + "}"
			}
			return "&ast.FloatLit{F: " + v + "}"
		}
		nd := func(t, tag string) string {
			if t == "int" {
				return "nondetInt64(\"" + tag + "\")"
			}
			return "nondetFloat64(\"" + tag + "\")"
		}
		gr := func(t, tag string) string {
			if t == "int" {
				return "c02Int(\"" + tag + "\")"
			}
			return "c02Float(\"" + tag + "\")"
		}
		fmt.Fprintf(&b, "func HarnessC02_%s() {\n\ta := %s\n\tb := %s\n\tc02Check(verifObjC02_%s(a, b), %s, %s, %s, b == 0)\n}\n\n",
			pr.name, nd(pr.lt, "a"), nd(pr.rt, "b"), pr.name, pr.tok, lit(pr.lt, "a"), lit(pr.rt, "b"))
		fmt.Fprintf(&b, "func HarnessC02Grid_%s() {\n\ta := %s\n\tb := %s\n\tc02Check(verifObjC02_%s(a, b), %s, %s, %s, b == 0)\n}\n\n",
			pr.name, gr(pr.lt, "a"), gr(pr.rt, "b"), pr.name, pr.tok, lit(pr.lt, "a"), lit(pr.rt, "b"))
	}
	return map[string]string{"c02_objects.go": b.String()}, progs, nil
}

func init() {
	register(&CheckDef{ID: "C02", Level: "translation_validation", Only: []string{"C02."},
		Jobs: func(tier string) []JobDef {
			gen, progs, err := c02Gen()
			if err != nil {
				return []JobDef{{Name: "bridge-failed: " + err.Error(), Pkg: vmPkg, Dir: "internal/runtime/vm", Entry: "missing"}}
			}
			var jobs []JobDef
			for _, pr := range progs {
				jobs = append(jobs, JobDef{Name: "fold-" + pr.name, Pkg: vmPkg, Dir: "internal/runtime/vm", Harness: []string{"vm/c02.go"}, GenFiles: gen,
					EngineOnly: []string{"vm/vm_engine.go"}, NativeOnly: []string{"vm/vm_native.go"},
					Entry: "HarnessC02_" + pr.name, Substs: vmSubsts,
					Bound: fmt.Sprintf("`g = A %s B` with A any %s literal and B any %s literal (all int64 / all float64 values incl. NaN, infinities, zeros)", pr.op, pr.lt, pr.rt)})
			}
			for _, pr := range progs {
				jobs = append(jobs, JobDef{Name: "grid-" + pr.name, Pkg: vmPkg, Dir: "internal/runtime/vm", Harness: []string{"vm/c02.go"}, GenFiles: gen,
					EngineOnly: []string{"vm/vm_engine.go"}, NativeOnly: []string{"vm/vm_native.go"},
					Entry: "HarnessC02Grid_" + pr.name, Substs: vmSubsts,
					Bound: fmt.Sprintf("`g = A %s B` on a grid of 15 boundary int64 / 10 boundary float64 literal values, executed concretely by the same engine (supplement: math.Pow and math.Mod are uninterpreted in the symbolic job)", pr.op)})
			}
			return jobs
		},
		Assumptions: append(append([]string{
			"math.Pow and math.Mod are uninterpreted functions in the symbolic jobs (both sides must call them on the same arguments); float->int conversion out of range is the amd64 result; the concrete grid jobs evaluate them natively",
			"nested constant expressions follow from the single-step result because the optimiser folds bottom-up and each step preserves (type, value); the checker and code generator treat literal values opaquely apart from the zero test (the sentinel substitution depends on it)",
		}, vmAssumptions...), baseAssumptions...),
		Outside: []string{"constant folds in pattern-concatenation context", "operators other than + - * / % **"}})
}

// native replay of VM harnesses: the two FindStringSubmatch call sites in
// vm.go are routed to the harness match table, as in the engine.
var vmSubsts = []Subst{
	{File: "internal/runtime/vm/vm.go", Old: "v.re[index].FindStringSubmatch(v.input.Line)", New: "verifFindStringSubmatch(v.re[index], v.input.Line)"},
	{File: "internal/runtime/vm/vm.go", Old: "v.re[index].FindStringSubmatch(line)", New: "verifFindStringSubmatch(v.re[index], line)"},
}
