package main

import (
	"fmt"
	"go/token"
	"go/types"

	"golang.org/x/tools/go/ssa"
)

func (e *Exec) cmpByte(a, b Int) bool {
	return e.decide(eqInt(a, b))
}

func sliceBytes(v value) []Int {
	s, _ := v.([]value)
	r := make([]Int, len(s))
	for i := range s {
		r[i] = s[i].(Int)
	}
	return r
}

func bytesToSlice(b []Int) []value {
	r := make([]value, len(b))
	for i := range b {
		r[i] = b[i]
	}
	return r
}

func (e *Exec) builtin(b *ssa.Builtin, cc *ssa.CallCommon, args []value) value {
	switch b.Name() {
	case "recover":
		if n := len(e.recovering); n > 0 && e.recovering[n-1].panicking != nil {
			top := e.recovering[n-1]
			v := top.panicking.v
			top.panicking = nil
			if iv, ok := v.(iface); ok {
				return iv
			}
			// runtime errors are modelled as strings
			return iface{t: types.Typ[types.String], v: fmt.Sprint(v)}
		}
		return iface{}
	case "len":
		switch x := args[0].(type) {
		case []value:
			return mkI64(int64(len(x)))
		case string:
			return mkI64(int64(len(x)))
		case SStr:
			if hasOpaque(x.B) {
				panic(inconclusive{"len of string with opaque piece"})
			}
			return mkI64(int64(len(x.B)))
		case array:
			return mkI64(int64(len(x)))
		case *channel:
			if x == nil {
				return mkI64(0)
			}
			return mkI64(int64(len(x.buf)))
		case *omap:
			if x == nil {
				return mkI64(0)
			}
			return mkI64(int64(len(x.e)))
		case *value: // pointer to array
			return mkI64(int64(len((*x).(array))))
		}
	case "cap":
		switch x := args[0].(type) {
		case []value:
			return mkI64(int64(cap(x)))
		case *channel:
			if x == nil {
				return mkI64(0)
			}
			return mkI64(int64(x.cap))
		}
	case "SliceData":
		// unsafe.SliceData: the address of the first element; the slice is
		// remembered so that unsafe.String can find the following cells
		sl, _ := args[0].([]value)
		if cap(sl) == 0 {
			return (*value)(nil)
		}
		full := sl[:cap(sl)]
		if e.sliceData == nil {
			e.sliceData = map[*value][]value{}
		}
		e.sliceData[&full[0]] = full
		return &full[0]
	case "String":
		// unsafe.String(ptr, n): a string that shares the memory at ptr
		p, _ := args[0].(*value)
		n := e.concretize(args[1].(Int)).signed()
		if n == 0 {
			return ""
		}
		cells, ok := e.sliceData[p]
		if !ok || int(n) > len(cells) {
			panic(inconclusive{"unsafe.String over memory that did not come from unsafe.SliceData"})
		}
		b := make([]Int, n)
		for i := range b {
			b[i] = Int{W: 8, Ref: &cells[i]}
		}
		return SStr{B: b}
	case "append":
		dst, _ := args[0].([]value)
		switch src := args[1].(type) {
		case []value:
			if len(src) == 0 {
				return dst
			}
			cp := make([]value, len(src))
			for i := range src {
				if e.race.on {
					e.raceRecord(&src[i], false, false, "append (source element)")
				}
				cp[i] = copyVal(src[i])
			}
			if e.race.on && len(dst)+len(cp) <= cap(dst) {
				// appending within the capacity writes the backing array in place
				full := dst[:cap(dst)]
				for i := len(dst); i < len(dst)+len(cp); i++ {
					e.raceRecord(&full[i], true, false, "append (in place)")
				}
			}
			return append(dst, cp...)
		case string, SStr:
			bs := strBytes(src)
			if hasOpaque(bs) {
				panic(inconclusive{"append of string with opaque piece to []byte"})
			}
			for _, b := range bs {
				dst = append(dst, b)
			}
			return dst
		case nil:
			return dst
		}
	case "copy":
		dst, _ := args[0].([]value)
		var n int
		switch src := args[1].(type) {
		case []value:
			tmp := make([]value, len(src))
			for i := range src {
				if e.race.on && i < len(dst) {
					e.raceRecord(&src[i], false, false, "copy (source element)")
					e.raceRecord(&dst[i], true, false, "copy (destination element)")
				}
				tmp[i] = copyVal(src[i])
			}
			n = copy(dst, tmp)
		case string, SStr:
			bs := strBytes(src)
			for n = 0; n < len(bs) && n < len(dst); n++ {
				dst[n] = bs[n]
			}
		}
		return mkI64(int64(n))
	case "min", "max":
		switch r := args[0].(type) {
		case Int:
			for _, a := range args[1:] {
				y := a.(Int)
				var lt Bool
				if b.Name() == "min" {
					lt = intBinop(token.LSS, y, r).(Bool)
				} else {
					lt = intBinop(token.GTR, y, r).(Bool)
				}
				if e.decide(lt) {
					r = y
				}
			}
			return r
		}
	case "delete":
		m, _ := args[0].(*omap)
		e.mapDelete(m, args[1])
		return nil
	case "close":
		ch := args[0].(*channel)
		if ch == nil {
			panic(goPanic{"close of nil channel"})
		}
		if ch.closed {
			panic(goPanic{"close of closed channel"})
		}
		ch.closed = true
		return nil
	case "print", "println":
		return nil
	case "ssa:wrapnilchk":
		// the receiver check of a promoted method's wrapper
		if p, ok := args[0].(*value); ok {
			if p == nil {
				panic(goPanic{"value method called using nil pointer"})
			}
			return p
		}
	case "clear":
		if m, ok := args[0].(*omap); ok && m != nil {
			m.e = nil
			return nil
		}
	}
	panic(inconclusive{fmt.Sprintf("builtin %s on %T", b.Name(), args[0])})
}
