package main

import "fmt"

const metricsPkg = "github.com/google/mtail/internal/metrics"

func p(kv ...interface{}) map[string]int64 {
	m := map[string]int64{}
	for i := 0; i+1 < len(kv); i += 2 {
		m[kv[i].(string)] = int64(kv[i+1].(int))
	}
	return m
}

var baseAssumptions = []string{
	"Go compiler, runtime and go/ssa (x/tools v0.29.0) are trusted; the engine's reading of SSA is validated per run by replaying sampled paths natively (traces_validated_against_impl)",
	"solver verdicts of z3 4.8.12 are trusted; any (error or unknown answer makes the run inconclusive (exit 2), never a pass",
	"append growth policy and map iteration order are the engine's (amortised doubling as in the host Go; insertion order), code observing either is outside the claim",
}

func init() {
	register(&CheckDef{
		ID:    "C08",
		Level: "model_checking",
		Jobs: func(tier string) []JobDef {
			mk := func(entry string, arity, maxlen int) JobDef {
				return JobDef{Name: fmt.Sprintf("%s-a%d-l%d", entry, arity, maxlen), Pkg: metricsPkg, Dir: "internal/metrics",
					Harness: []string{"metrics/c08.go"}, Entry: entry, Params: p("arity", arity, "maxlen", maxlen),
					Bound: fmt.Sprintf("arity %d, every label 0..%d arbitrary bytes", arity, maxlen)}
			}
			jobs := []JobDef{
				mk("HarnessC08Key", 1, 3), mk("HarnessC08Key", 2, 2),
				mk("HarnessC08Prefix", 1, 3),
				mk("HarnessC08Metric", 1, 2), mk("HarnessC08Metric", 2, 2),
			}
			if tier == "thorough" {
				jobs = append(jobs, mk("HarnessC08Key", 2, 3), mk("HarnessC08Key", 3, 2), mk("HarnessC08Key", 4, 1),
					mk("HarnessC08Prefix", 1, 5), mk("HarnessC08Metric", 3, 1), mk("HarnessC08Metric", 2, 3))
			}
			return jobs
		},
		Assumptions: append([]string{
			"strings.ReplaceAll and strings.Builder are engine models (byte-wise scan for a concrete pattern), validated against the native functions by the sampled-path replay",
			"injectivity for arities beyond the bounded jobs rests on the prefix-code lemma job (enc(a) prefix of enc(b)+rest implies a==b) plus the usual induction, which is argued, not mechanised",
		}, baseAssumptions...),
		Outside: []string{"labels longer than the stated byte bounds", "arity above 4"},
	})
}
