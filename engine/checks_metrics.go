package main

import (
	"fmt"
	"strings"
)

const metricsPkg = "github.com/google/mtail/internal/metrics"

func p(kv ...interface{}) map[string]int64 {
	m := map[string]int64{}
	for i := 0; i+1 < len(kv); i += 2 {
		m[kv[i].(string)] = int64(kv[i+1].(int))
	}
	return m
}

var baseAssumptions = []string{
	"Go compiler, runtime and go/ssa (x/tools v0.29.0) are trusted; the engine's reading of SSA is validated per run by replaying sampled paths natively (traces_validated_against_impl)",
	"solver verdicts of z3 4.8.12 are trusted; any (error or unknown answer makes the run inconclusive (exit 2), never a pass",
	"append growth policy and map iteration order are the engine's (amortised doubling as in the host Go; insertion order), code observing either is outside the claim",
}

func init() {
	register(&CheckDef{
		ID:    "C08",
		Level: "model_checking",
		Jobs: func(tier string) []JobDef {
			mk := func(entry string, arity, maxlen int) JobDef {
				return JobDef{Name: fmt.Sprintf("%s-a%d-l%d", entry, arity, maxlen), Pkg: metricsPkg, Dir: "internal/metrics",
					Harness: []string{"metrics/c08.go"}, Entry: entry, Params: p("arity", arity, "maxlen", maxlen),
					Bound: fmt.Sprintf("arity %d, every label 0..%d arbitrary bytes", arity, maxlen)}
			}
			jobs := []JobDef{
				mk("HarnessC08Key", 1, 3), mk("HarnessC08Key", 2, 2),
				mk("HarnessC08Prefix", 1, 3),
				mk("HarnessC08Metric", 1, 2), mk("HarnessC08Metric", 2, 2),
			}
			// finding, creating, expiring or deleting one tuple with another
			// operation let in at its lock-release points (the C09 job)
			jobs = append(jobs, c09Interfere(1, 1, 2))
			if tier == "thorough" {
				jobs = append(jobs, c09Interfere(2, 1, 1))
				jobs = append(jobs, mk("HarnessC08Key", 2, 3), mk("HarnessC08Key", 3, 2), mk("HarnessC08Key", 4, 1),
					mk("HarnessC08Prefix", 1, 5), mk("HarnessC08Metric", 3, 1), mk("HarnessC08Metric", 2, 3))
			}
			return jobs
		},
		Assumptions: append([]string{
			"strings.ReplaceAll and strings.Builder are engine models (byte-wise scan for a concrete pattern), validated against the native functions by the sampled-path replay",
			"injectivity for arities beyond the bounded jobs rests on the prefix-code lemma job (enc(a) prefix of enc(b)+rest implies a==b) plus the usual induction, which is argued, not mechanised",
		}, baseAssumptions...),
		Outside: []string{"labels longer than the stated byte bounds", "arity above 4"},
	})
}

const logstreamPkg = "github.com/google/mtail/internal/tailer/logstream"

func init() {
	register(&CheckDef{
		ID:    "C15",
		Level: "model_checking",
		Jobs: func(tier string) []JobDef {
			mk := func(maxn, maxsize, zr int) JobDef {
				return JobDef{Name: fmt.Sprintf("HarnessC15-n%d-s%d-z%d", maxn, maxsize, zr), Pkg: logstreamPkg, Dir: "internal/tailer/logstream",
					Harness: []string{"logstream/c15.go"}, Entry: "HarnessC15", Params: p("maxn", maxn, "maxsize", maxsize, "zeroreads", zr),
					Bound: fmt.Sprintf("stream of 0..%d arbitrary bytes, read buffer size 1..%d, every chunking (each read returns any 1..min(len(p),rest) bytes; up to %d zero-length reads)", maxn, maxsize, zr)}
			}
			if tier == "thorough" {
				return []JobDef{mk(6, 4, 1), mk(4, 6, 2)}
			}
			return []JobDef{mk(4, 3, 1)}
		},
		Assumptions: append([]string{
			"bytes.IndexByte is an engine model (first index whose byte equals the needle, forking per byte); expvar is a counter table; time.AfterFunc/Timer.Stop are no-ops",
			"the io.Reader is a harness stub returning any chunk allowed by the io.Reader contract (io.EOF on its own or together with the last bytes); read errors other than io.EOF are outside the claim",
		}, baseAssumptions...),
		Outside: []string{"streams longer than the bound", "read errors", "the stale-timer cancellation"},
	})
}

// c09Interfere: one operation with a second one let in at any point at which
// the first releases the metric's lock.
func c09Interfere(arity, maxlen, npre int) JobDef {
	return JobDef{Name: fmt.Sprintf("HarnessC09Interfere-a%d-l%d-p%d", arity, maxlen, npre), Pkg: metricsPkg, Dir: "internal/metrics",
		Harness: []string{"metrics/c08.go", "metrics/c09.go", "metrics/c09i.go"}, Entry: "HarnessC09Interfere",
		Params: p("arity", arity, "maxlen", maxlen, "npre", npre),
		Substs: []Subst{
			{File: "internal/metrics/metric.go", Re: true, Old: `(?m)^(\s*)defer ((?:\w+\.)+)(R?Unlock)\(\)[ \t]*$`, New: "${1}defer func() { ${2}${3}(); verifYieldPoint() }()"},
			{File: "internal/metrics/metric.go", Re: true, Old: `(?m)^(\s*)((?:\w+\.)+)(R?Unlock)\(\)[ \t]*$`, New: "${1}${2}${3}(); verifYieldPoint()"},
		},
		Bound: fmt.Sprintf("a metric of arity %d built by %d get-or-create calls (labels 0..%d arbitrary bytes, so 1..%d distinct tuples); operations A and B each any of {get-or-create, delete, expiry mark} on an arbitrary tuple; B runs to completion at a solver-chosen point among the points at which A releases the metric's lock (or after A); results and final metric compared with A;B and B;A on the association-list oracle", arity, npre, maxlen, npre)}
}

func init() {
	register(&CheckDef{
		ID:    "C09",
		Level: "model_checking",
		Jobs: func(tier string) []JobDef {
			mk := func(arity, maxlen, nops, typ int) JobDef {
				return JobDef{Name: fmt.Sprintf("HarnessC09Seq-a%d-l%d-n%d-t%d", arity, maxlen, nops, typ), Pkg: metricsPkg, Dir: "internal/metrics",
					Harness: []string{"metrics/c08.go", "metrics/c09.go"}, Entry: "HarnessC09Seq", Params: p("arity", arity, "maxlen", maxlen, "nops", nops, "type", typ),
					Bound: fmt.Sprintf("every sequence of %d operations from {get-or-create, delete, expire, wrong-length calls, value update, find, enumerate} on an empty metric of arity %d, value type %d; every label 0..%d arbitrary bytes; expiry any int64", nops, arity, typ, maxlen)}
			}
			if tier == "thorough" {
				pre := mk(1, 1, 3, 0)
				pre.Name += "-preemit"
				pre.Params["preemit"] = 1
				pre.Bound = "a metric holding one tuple that has been enumerated once, then " + pre.Bound
				return []JobDef{pre, mk(1, 1, 4, 0), mk(2, 1, 3, 0), mk(1, 2, 3, 0), mk(0, 1, 4, 0), mk(1, 1, 3, 1), mk(1, 1, 3, 2), mk(1, 1, 3, 3), mk(2, 2, 2, 0), c09Interfere(1, 1, 3), c09Interfere(2, 1, 1)}
			}
			pre := mk(1, 1, 2, 0)
			pre.Name += "-preemit"
			pre.Params["preemit"] = 1
			pre.Bound = "a metric holding one tuple that has been enumerated once, then " + pre.Bound
			return []JobDef{mk(1, 1, 3, 0), mk(1, 0, 4, 0), pre, mk(2, 1, 2, 0), mk(0, 1, 3, 0), mk(1, 1, 2, 3), mk(1, 1, 2, 2), c09Interfere(1, 1, 2)}
		},
		Assumptions: append([]string{
			"the oracle is an insertion-ordered association list written in the harness and executed by the same engine on the same symbols",
			"EmitLabelSets runs in an interpreted goroutine under the engine's deterministic scheduler (one schedule); the enumeration result does not depend on the interleaving because producer and consumer rendezvous on one unbuffered channel",
			"pkg/errors.Errorf is modelled as an opaque error (its message, which formats the metric, is not evaluated)",
		}, baseAssumptions...),
		Outside: []string{"operation sequences longer than the bound", "data races (C11); of concurrent use only one interfering operation at the lock-release points of one operation is explored (HarnessC09Interfere), and RemoveOldestDatum, whose scan and removal are two critical sections by design, is not one of the operations", "JSON marshalling of the metric"},
	})
}

func init() {
	register(&CheckDef{
		ID:    "C10",
		Level: "model_checking",
		Jobs: func(tier string) []JobDef {
			mk := func(maxn int) JobDef {
				return JobDef{Name: fmt.Sprintf("HarnessC10-n%d", maxn), Pkg: metricsPkg, Dir: "internal/metrics",
					Harness: []string{"metrics/c10.go"}, Entry: "HarnessC10", Params: p("maxn", maxn),
					Substs: []Subst{{File: "internal/metrics/store.go", Old: "time.Now()", New: "verifNow()"}},
					Bound:  fmt.Sprintf("one metric with 0..%d data, each with an arbitrary timestamp in [1970, 2262] and an arbitrary int64 expiry (any sign), limit 0..%d, clock anywhere in [2001-09-09, 2200-01-01); one Gc pass", maxn, maxn+1)}
			}
			if tier == "thorough" {
				// (5 data: the solver answers unknown on the final obligation since
				// Gc works in two passes; not registered)
				return []JobDef{mk(3), mk(4)}
			}
			return []JobDef{mk(3)}
		},
		Assumptions: append([]string{
			"time.Time is an engine model: an exact count of nanoseconds; time.Unix(t/1e9, t%1e9) is recognised structurally as the instant t (an identity of Go's truncated division), Time.Sub is the 128-bit difference saturated to int64, Time.Before compares instants; the wall clock is a symbolic instant (vClockSet) - natively replayed by substituting time.Now() in store.go with the harness clock",
			"timestamps are >= 0 (after 1970) so that Time.Sub cannot saturate; data are addressed by distinct single-letter labels",
		}, baseAssumptions...),
		Outside: []string{"more data per metric than the bound", "timestamps before 1970 (Sub saturation)", "several metrics each over its limit (the per-metric pass is independent)"},
	})
}

const codegenPkg = "github.com/google/mtail/internal/runtime/compiler/codegen"

func init() {
	register(&CheckDef{
		ID:    "C21",
		Level: "model_checking",
		Jobs: func(tier string) []JobDef {
			mk := func(maxb, nobs int) JobDef {
				return JobDef{Name: fmt.Sprintf("HarnessC21-b%d-o%d", maxb, nobs), Pkg: codegenPkg, Dir: "internal/runtime/compiler/codegen",
					Harness: []string{"codegen/c21.go"}, Entry: "HarnessC21", Params: p("maxb", maxb, "nobs", nobs),
					Bound: fmt.Sprintf("histogram declaration with 2..%d boundaries, each any finite float64 (sorted or not); %d observations, each any float64 including NaN and +-Inf", maxb, nobs)}
			}
			if tier == "thorough" {
				return []JobDef{mk(3, 3), mk(4, 2), mk(2, 4)}
			}
			return []JobDef{mk(3, 2)}
		},
		Assumptions: append([]string{
			"float64 arithmetic and comparisons are SMT FloatingPoint(11,53) terms with round-nearest-even; math.IsInf/Inf are engine models; sort.Float64s is an insertion sort with sort.Float64Slice's ordering",
			"the declaration is given to codegen.CodeGen as an ast.VarDecl (the parser turning text into that node is outside the claim)",
		}, baseAssumptions...),
		Outside: []string{"more boundaries / observations than the bound", "the parser's handling of the buckets clause", "the Prometheus text rendering of the histogram"},
	})
}

func init() {
	storeJob := func(tier string) []JobDef {
		small := 1
		if tier == "thorough" {
			small = 0
		}
		return []JobDef{{Name: fmt.Sprintf("HarnessC06Add-small%d", small), Pkg: metricsPkg, Dir: "internal/metrics",
			Harness: []string{"metrics/c06.go"}, Entry: "HarnessC06Add", Params: p("small", small),
			Bound: "store with two metrics, each with name in {a,b}, program in {p,q}, kind in {Counter,Gauge}, type in {Int,Float}, source in {s1,s2}, 1..2 keys, 0..2 label values with symbolic values and expiry marks (valid: one kind per name, one metric per name and program); one Add of an arbitrary metric of program p from the same alphabet; quick tier (small=1): first metric of program p, second of program q with one key and source s1, new metric named a (names are symmetric)"}}
	}
	as := append([]string{
		"the pre-state is constructed directly (NewMetric + GetDatum + insertion into Store.Metrics) under the stated representation invariant; reflect.DeepEqual on []string is an engine model",
		"glog is a no-op; pkg/errors.Errorf is an opaque error",
	}, baseAssumptions...)
	register(&CheckDef{ID: "C14", Level: "model_checking", Assumptions: append(append([]string{}, as...), loaderAssumptions...), Only: []string{"C14."},
		Jobs: func(tier string) []JobDef {
			return append(append(storeJob(tier), loaderC14Jobs(tier)...), loaderC26Jobs(tier)[1])
		},
		Outside: []string{"more than two pre-existing metrics in the store step", "histories of more than 2 (thorough 3) loads", "lines flowing and GC during a reload (C20, C11)"}})
	register(&CheckDef{ID: "C06", Level: "model_checking", Jobs: storeJob, Assumptions: as, Only: []string{"C06."},
		Outside: []string{"that each program runs in its own VM with its own line channel (by construction in CompileAndRun, not a solver question)", "more than two pre-existing metrics", "the prog label in the Prometheus exporter (C13)"}})
}

const exporterPkg = "github.com/google/mtail/internal/exporter"

func exporterJob(entry string, nm, symlabels int, bound string) JobDef {
	return JobDef{Name: fmt.Sprintf("%s-m%d-s%d", entry, nm, symlabels), Pkg: exporterPkg, Dir: "internal/exporter",
		Harness: []string{"exporter/c12.go"}, EngineOnly: []string{"exporter/prom_engine.go"}, NativeOnly: []string{"exporter/prom_native.go"},
		Entry: entry, Params: p("nmetrics", nm, "symlabels", symlabels),
		Substs: []Subst{
			{File: "internal/exporter/prometheus.go", Old: "prometheus.NewConstMetric(", New: "verifNewConstMetric("},
			{File: "internal/exporter/prometheus.go", Old: "prometheus.NewConstHistogram(", New: "verifNewConstHistogram("},
			// export points right after an exporter took a metric's read lock
			{File: "internal/exporter/prometheus.go", Old: "\t\tm.RLock()\n", New: "\t\tm.RLock()\n\t\tc12WriterPoint()\n"},
			{File: "internal/exporter/export.go", Old: "\t\tm.RLock()\n", New: "\t\tm.RLock()\n\t\tc12WriterPoint()\n"},
			{File: "internal/exporter/graphite.go", Old: "\t\tm.RLock()\n", New: "\t\tm.RLock()\n\t\tc12WriterPoint()\n"},
			{File: "internal/exporter/varz.go", Old: "\t\tm.RLock()\n", New: "\t\tm.RLock()\n\t\tc12WriterPoint()\n"},
		},
		Bound: bound}
}

// withMaxLV bounds the label sets per metric of an exporter job (default 2).
func withMaxLV(j JobDef, maxlv int) JobDef {
	j.Name += fmt.Sprintf("-l%d", maxlv)
	j.Params["maxlv"] = int64(maxlv)
	j.Bound = strings.Replace(j.Bound, "0..2 label sets", fmt.Sprintf("0..%d label sets", maxlv), 1)
	return j
}

func init() {
	storeBound := "store of %d metric(s), each of any kind/type (counter int/float, gauge, timer, text, histogram), 0..1 keys, 0..2 label sets with symbolic values, timestamps and (Prometheus job) 0..1-byte label values; in the Prometheus job the key is either a valid label name (key_a) or one the client library refuses (key-a)"
	as := append([]string{
		"prometheus.NewDesc/NewConstMetric/NewConstHistogram/NewMetricWithTimestamp are recording stubs that fail exactly where client_golang v1.20 / common v0.60 (legacy name validation) refuses a sample - invalid metric name, invalid, reserved or duplicate label name, wrong label count, label value that is not valid UTF-8 (one SMT condition over the symbolic bytes) - and additionally at any solver-chosen call; natively replayed by rewriting the constructor call sites to fault-injecting wrappers around the real constructors, so every validated path compares the model's refusals with the real library's",
		"the push connection and the HTTP response writer are harness types whose writes fail / cancel the request at solver-chosen calls; EmitLabelSets runs in an interpreted goroutine under the deterministic scheduler; lock and goroutine state are read from the engine's lock table / goroutine table",
		"Store.Range iterates metrics in insertion order (Go map order is not explored)",
	}, baseAssumptions...)
	register(&CheckDef{ID: "C12", Level: "model_checking", Only: []string{"C12."}, Assumptions: as,
		Jobs: func(tier string) []JobDef {
			jobs := func(nm int) []JobDef {
				b := fmt.Sprintf(storeBound, nm)
				return []JobDef{
					exporterJob("HarnessC12Prom", nm, 0, b+"; every subset of constructor calls refused"),
					exporterJob("HarnessC12Socket", nm, 0, b+"; graphite/statsd/collectd push formatters; the connection fails at any write"),
					exporterJob("HarnessC12HTTP", nm, 0, b+"; varz and graphite handlers; request cancelled before the export or at any write"),
				}
			}
			withWriter := func(js []JobDef) []JobDef {
				// the same exports with line processing arriving (queueing on
				// the metric's write lock) at any one constructor call / write
				var out []JobDef
				for _, j := range js {
					j.Name += "-writer"
					j.Params = p("nmetrics", int(j.Params["nmetrics"]), "symlabels", int(j.Params["symlabels"]), "writer", 1)
					j.Bound += "; a line-processing goroutine queues on the metric's write lock at any one of these points"
					out = append(out, j)
				}
				return out
			}
			if tier == "thorough" {
				// one metric with up to 3 label sets, and two metrics with up
				// to 1 label set each (two metrics x 2 label sets is ~10^8
				// paths: outside the budget, stated as outside the claim)
				var out []JobDef
				for _, j := range jobs(1) {
					out = append(out, withMaxLV(j, 3))
				}
				for _, j := range jobs(2) {
					out = append(out, withMaxLV(j, 1))
				}
				return append(out, withWriter(jobs(1))...)
			}
			return append(jobs(1), withWriter(jobs(1))...)
		},
		Outside: []string{"the real net.Conn / HTTP server", "more than one concurrent line-processing goroutine, and schedules other than 'queued at one export point, runs when the lock is released'", "JSON export (no per-metric lock is taken there)", "more metrics / label sets than the bound (in particular two metrics with two label sets each)"}})
	register(&CheckDef{ID: "C13", Level: "model_checking", Only: []string{"C13."}, Assumptions: as,
		Jobs: func(tier string) []JobDef {
			if tier == "thorough" {
				same := withMaxLV(exporterJob("HarnessC12Prom", 2, 0, "two programs declaring a metric of the same name (each any kind/type, own key, 0..2 label sets): every emitted sample carries its own program's label names and values"), 2)
				same.Name += "-samename"
				same.Params["samename"] = 1
				same.Params["nofault"] = 1
				return []JobDef{exporterJob("HarnessC12Prom", 1, 1, fmt.Sprintf(storeBound, 1)), withMaxLV(exporterJob("HarnessC12Prom", 2, 1, fmt.Sprintf(storeBound, 2)), 1), same}
			}
			same := withMaxLV(exporterJob("HarnessC12Prom", 2, 0, "two programs declaring a metric of the same name (each any kind/type, own key, 0..1 label sets): every emitted sample carries its own program's label names and values"), 1)
			same.Name += "-samename"
			same.Params["samename"] = 1
			same.Params["nofault"] = 1
			return []JobDef{exporterJob("HarnessC12Prom", 1, 1, fmt.Sprintf(storeBound, 1)), same}
		},
		Outside: []string{"the expfmt text rendering and the registry's consistency checks (claim is to the client-library boundary: the arguments of the constructor calls)", "timestamps are compared at the client library's millisecond resolution", "stores in which two exported series share a name and label set (excluded by the property)"}})
}

func init() {
	register(&CheckDef{ID: "C22", Level: "model_checking", Only: []string{"C22."},
		Jobs: func(tier string) []JobDef {
			j := exporterJob("HarnessC22", 1, 0, "one metric of each kind/type (counter int/float, gauge float, timer, histogram with two observations, text) with two label sets whose values, timestamps, observations and label values (one printable ASCII byte other than a separator) are symbolic; formatters graphite, statsd, collectd, varz; for graphite/statsd/collectd also against a reference record")
			j.Harness = []string{"exporter/c12.go", "exporter/c22.go"}
			j2 := exporterJob("HarnessC22Reexport", 1, 0, "counter/gauge/timer metric with label sets a,b (symbolic values and timestamps) exported once, then a removed and c added, exported again with each of the four formatters")
			j2.Harness = j.Harness
			j3 := exporterJob("HarnessC22Push", 1, 0, "counter/gauge/timer metric with label sets a,b (symbolic values and timestamps) pushed with writeSocketMetrics through the graphite, statsd and collectd formatters to a connection that records each write")
			j3.Harness = j.Harness
			return []JobDef{j, j2, j3}
		},
		Assumptions: append([]string{
			"fmt.Sprintf/Fprintf are engine models: %s/%v/%d/%g of symbolic numbers become opaque formatted pieces that are equal iff their arguments are (injectivity of strconv's shortest formatting; NaNs equal); strings.ReplaceAll/Join and sort.Strings are engine models",
			"metamorphic oracle: the record for label set 2 of a two-label-set metric must equal the record of a metric holding only that label set; for graphite, statsd and collectd (non-histogram) the record must also equal a reference record written in the harness from the formats' documents (path/name, label, value text, timestamp text); records are compared as sets of lines (graphite histogram lines are written while ranging over a Go map: natively sorted before comparison, in the engine both records iterate in the same insertion order)",
			"flag values (graphite/statsd/collectd prefixes) are their defaults",
		}, baseAssumptions...),
		Outside: []string{"JSON export and Store.MarshalJSON round trip (encoding/json reflection is not executed symbolically)", "the push transport below the io.Writer (dialling, datagram sizes)", "label values containing separator characters (excluded by the property)"}})
}
