package main

import (
	"encoding/json"
	"fmt"
	"os"
	"os/exec"
	"path/filepath"
	"strconv"
	"strings"
)

// The native compile bridge (harness/bridge/main.go.src) is built inside the
// mtail module by overlay and compiles program texts with the working tree's
// compiler.  genObjectFunc turns its JSON dump into Go source constructing
// the same code.Object, so bytecode reaches the executor through SSA and the
// same file compiles natively for replay.

type bridgeIn struct {
	Name  string `json:"name"`
	Src   string `json:"src"`
	NoOpt bool   `json:"noopt"`
}

type bridgeInstr struct {
	Op   int    `json:"op"`
	Name string `json:"name"`
	Kind string `json:"kind"`
	Val  string `json:"val"`
	Line int    `json:"line"`
}

type bridgeLV struct {
	Labels []string `json:"labels"`
	Type   string   `json:"type"`
}

type bridgeMetric struct {
	Name    string      `json:"name"`
	Program string      `json:"program"`
	Kind    int         `json:"kind"`
	Type    int         `json:"type"`
	Hidden  bool        `json:"hidden"`
	Keys    []string    `json:"keys"`
	Source  string      `json:"source"`
	Buckets [][2]string `json:"buckets"`
	Limit   int         `json:"limit"`
	LVs     []bridgeLV  `json:"lvs"`
}

type bridgeOut struct {
	Name    string         `json:"name"`
	Errors  string         `json:"errors"`
	Prog    []bridgeInstr  `json:"prog"`
	Strings []string       `json:"strings"`
	Regexps []string       `json:"regexps"`
	Metrics []bridgeMetric `json:"metrics"`
}

func runBridge(ins []bridgeIn) ([]bridgeOut, error) {
	scratch, err := os.MkdirTemp("", "verif-bridge-")
	if err != nil {
		return nil, err
	}
	defer os.RemoveAll(scratch)
	src, err := os.ReadFile(filepath.Join(verifRoot, "harness", "bridge", "main.go.src"))
	if err != nil {
		return nil, err
	}
	mp := filepath.Join(scratch, "main.go")
	os.WriteFile(mp, src, 0o644)
	ov, _ := json.Marshal(map[string]interface{}{"Replace": map[string]string{filepath.Join(repoDir(), "internal/zz_verifgen/main.go"): mp}})
	ovp := filepath.Join(scratch, "ov.json")
	os.WriteFile(ovp, ov, 0o644)
	inb, _ := json.Marshal(ins)
	inp := filepath.Join(scratch, "in.json")
	os.WriteFile(inp, inb, 0o644)
	outp := filepath.Join(scratch, "out.json")
	cmd := exec.Command("go", "run", "-overlay", ovp, "github.com/google/mtail/internal/zz_verifgen", inp, outp)
	cmd.Dir = repoDir()
	cmd.Env = append(os.Environ(), "GOFLAGS=-mod=mod", "GOPROXY=off", "GOSUMDB=off", "GOTOOLCHAIN=local")
	if out, err := cmd.CombinedOutput(); err != nil {
		return nil, fmt.Errorf("compile bridge failed: %v\n%s", err, tail(string(out), 3000))
	}
	raw, err := os.ReadFile(outp)
	if err != nil {
		return nil, err
	}
	var outs []bridgeOut
	if err := json.Unmarshal(raw, &outs); err != nil {
		return nil, err
	}
	return outs, nil
}

// sentinel operands are replaced by function parameters: a push of the
// int64 / float64 sentinel value becomes a reference to the parameter.
type sentinel struct {
	Kind  string // "int64" or "float64"
	Val   string // as dumped by the bridge (decimal / float bits)
	Param string
}

// genObjectFunc renders `func <fn>(<params>) *code.Object`.
func genObjectFunc(fn string, o bridgeOut, sents []sentinel) string {
	return genObjectFuncP(fn, o, sents, false)
}

// genObjectFuncP: with progParam the constructor takes the program name as a
// parameter `prog` (the loader harnesses load one text under several names).
func genObjectFuncP(fn string, o bridgeOut, sents []sentinel, progParam bool) string {
	var b strings.Builder
	var params []string
	if progParam {
		params = append(params, "prog string")
	}
	for _, s := range sents {
		params = append(params, s.Param+" "+s.Kind)
	}
	fmt.Fprintf(&b, "// %s: bytecode of program %q as compiled by the working tree's compiler.\nfunc %s(%s) *code.Object {\n", fn, o.Name, fn, strings.Join(params, ", "))
	for i, m := range o.Metrics {
		keys := ""
		for _, k := range m.Keys {
			keys += ", " + strconv.Quote(k)
		}
		if progParam {
			fmt.Fprintf(&b, "\tm%d := metrics.NewMetric(%q, prog, metrics.Kind(%d), metrics.Type(%d)%s)\n", i, m.Name, m.Kind, m.Type, keys)
			fmt.Fprintf(&b, "\tm%d.Source, m%d.Hidden, m%d.Limit = prog+%q, %v, %d\n", i, i, i, strings.TrimPrefix(m.Source, o.Name), m.Hidden, m.Limit)
		} else {
			fmt.Fprintf(&b, "\tm%d := metrics.NewMetric(%q, %q, metrics.Kind(%d), metrics.Type(%d)%s)\n", i, m.Name, m.Program, m.Kind, m.Type, keys)
			fmt.Fprintf(&b, "\tm%d.Source, m%d.Hidden, m%d.Limit = %q, %v, %d\n", i, i, i, m.Source, m.Hidden, m.Limit)
		}
		if len(m.Buckets) > 0 {
			fmt.Fprintf(&b, "\tm%d.Buckets = []datum.Range{", i)
			for _, r := range m.Buckets {
				fmt.Fprintf(&b, "{math.Float64frombits(%s), math.Float64frombits(%s)}, ", r[0], r[1])
			}
			b.WriteString("}\n")
		}
		for _, lv := range m.LVs {
			args := ""
			for k, l := range lv.Labels {
				if k > 0 {
					args += ", "
				}
				args += strconv.Quote(l)
			}
			fmt.Fprintf(&b, "\tif d, err := m%d.GetDatum(%s); err == nil {\n", i, args)
			switch lv.Type {
			case "int":
				b.WriteString("\t\tdatum.SetInt(d, 0, time.Unix(0, 0))\n")
			case "float":
				b.WriteString("\t\tdatum.SetFloat(d, 0, time.Unix(0, 0))\n")
			default:
				b.WriteString("\t\t_ = d\n")
			}
			b.WriteString("\t}\n")
		}
	}
	b.WriteString("\treturn &code.Object{\n\t\tProgram: []code.Instr{\n")
	for _, in := range o.Prog {
		opnd := "nil"
		switch in.Kind {
		case "int":
			opnd = "int(" + in.Val + ")"
		case "int64":
			opnd = "int64(" + in.Val + ")"
		case "float64":
			opnd = "math.Float64frombits(" + in.Val + ")"
		case "bool":
			opnd = in.Val
		case "duration":
			opnd = "time.Duration(" + in.Val + ")"
		case "string":
			opnd = strconv.Quote(in.Val)
		}
		for _, s := range sents {
			if s.Kind == in.Kind && s.Val == in.Val {
				opnd = s.Param
			}
		}
		fmt.Fprintf(&b, "\t\t\t{code.Opcode(%d), %s, %d}, // %s\n", in.Op, opnd, in.Line, in.Name)
	}
	b.WriteString("\t\t},\n\t\tStrings: []string{")
	for _, s := range o.Strings {
		b.WriteString(strconv.Quote(s) + ", ")
	}
	b.WriteString("},\n\t\tRegexps: []*regexp.Regexp{")
	for _, r := range o.Regexps {
		b.WriteString("regexp.MustCompile(" + strconv.Quote(r) + "), ")
	}
	b.WriteString("},\n\t\tMetrics: []*metrics.Metric{")
	for i := range o.Metrics {
		fmt.Fprintf(&b, "m%d, ", i)
	}
	b.WriteString("},\n\t}\n}\n\n")
	return b.String()
}

func genHeaderPkg(pkg string, extraImports ...string) string {
	return strings.Replace(genHeader(extraImports...), "package vm\n", "package "+pkg+"\n", 1)
}

func genHeader(extraImports ...string) string {
	extra := ""
	for _, i := range extraImports {
		extra += "\t" + strconv.Quote(i) + "\n"
	}
	return strings.Replace(genObjectHeader, "//EXTRA\n", extra, 1)
}

const genObjectHeader = `package vm

import (
	"math"
	"regexp"
	"time"

	"github.com/google/mtail/internal/metrics"
	"github.com/google/mtail/internal/metrics/datum"
	"github.com/google/mtail/internal/runtime/code"
//EXTRA
)

var _ = math.Inf
var _ = time.Unix
var _ = regexp.MustCompile
var _ datum.Datum
var _ = code.Stop

`
