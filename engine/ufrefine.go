package main

import (
	"fmt"
	"math"
)

// Counterexample-guided refinement of uninterpreted functions.  math.Pow,
// math.Mod, strconv.ParseFloat and time.Parse are uninterpreted in the
// encoding, which over-approximates them: an unsat verdict is sound, but a
// sat model may give an application a value the real function does not have.
// Before a model is accepted as a counterexample, every application recorded
// on the path is evaluated natively at the model's argument values; where the
// model disagrees, the true value is asserted as a fact about that point and
// the query is repeated.

type ufApp struct {
	term string   // the application term
	args []string // argument terms
	// eval maps the model's printed argument values to the SMT literal of the
	// native result; ok=false if the arguments cannot be evaluated
	eval func(vals []string) (string, bool)
}

func fp2(native func(a, b float64) float64) func(vals []string) (string, bool) {
	return func(vals []string) (string, bool) {
		a, ok1 := parseFP(vals[0])
		b, ok2 := parseFP(vals[1])
		if !ok1 || !ok2 {
			return "", false
		}
		return fpLit(native(a, b)), true
	}
}

// refineUF returns true if at least one fact was added (the caller repeats
// its check-sat).  Must be called right after a check-sat that returned sat.
func (e *Exec) refineUF() bool {
	added := false
	seen := map[string]bool{}
	for _, app := range e.ufApps {
		vals := make([]string, len(app.args))
		ok := true
		for i, a := range app.args {
			vals[i] = e.sol.GetValue(a)
			if vals[i] == "" {
				ok = false
			}
		}
		if !ok {
			continue
		}
		want, ok := app.eval(vals)
		if !ok {
			continue
		}
		got := e.sol.GetValue(app.term)
		if sameModelValue(got, want) {
			continue
		}
		key := fmt.Sprint(app.term, vals)
		if seen[key] {
			continue
		}
		seen[key] = true
		// fact: at these concrete arguments the function has this value
		conds := ""
		for i, a := range app.args {
			conds += " (= " + a + " " + vals[i] + ")"
		}
		e.pendingFacts = append(e.pendingFacts, "(=> (and true"+conds+") (= "+app.term+" "+want+"))")
		added = true
	}
	for _, f := range e.pendingFacts {
		e.sol.Send("(assert " + f + ")")
	}
	e.pendingFacts = nil
	return added
}

func sameModelValue(got, want string) bool {
	if got == want {
		return true
	}
	g, ok1 := parseFP(got)
	w, ok2 := parseFP(want)
	if ok1 && ok2 {
		return math.Float64bits(g) == math.Float64bits(w) || (g != g && w != w)
	}
	return false
}

// checkRefined is check-sat followed by UF refinement rounds.
func (e *Exec) checkRefined() string {
	for round := 0; round < 12; round++ {
		r := e.sol.Check()
		if r != "sat" || len(e.ufApps) == 0 {
			return r
		}
		if !e.refineUF() {
			return "sat"
		}
		e.st.UFRefinements++
	}
	e.incon("UF refinement did not converge")
	return "unknown"
}
