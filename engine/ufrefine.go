package main

import (
	"fmt"
	"math"
	"os"
	"strings"
)

// Counterexample-guided refinement of uninterpreted functions.  math.Pow,
// math.Mod, strconv.ParseFloat and time.Parse are uninterpreted in the
// encoding, which over-approximates them: an unsat verdict is sound, but a
// sat model may give an application a value the real function does not have.
// Before a model is accepted as a counterexample, every application recorded
// on the path is evaluated natively at the model's argument values; where the
// model disagrees, the true value is asserted as a fact about that point and
// the query is repeated.

type ufApp struct {
	term string   // the application term
	args []string // argument terms
	// eval maps the model's printed argument values to the SMT literal of the
	// native result; ok=false if the arguments cannot be evaluated
	eval func(vals []string) (string, bool)
}

func fp2(native func(a, b float64) float64) func(vals []string) (string, bool) {
	return func(vals []string) (string, bool) {
		a, ok1 := parseFP(vals[0])
		b, ok2 := parseFP(vals[1])
		if !ok1 || !ok2 {
			return "", false
		}
		return fpLit(native(a, b)), true
	}
}

// refineUF returns true if at least one fact was added (the caller repeats
// its check-sat).  Must be called right after a check-sat that returned sat.
func (e *Exec) refineUF() bool {
	added := false
	seen := map[string]bool{}
	for _, app := range e.ufApps {
		vals := make([]string, len(app.args))
		ok := true
		for i, a := range app.args {
			vals[i] = e.sol.GetValue(a)
			if vals[i] == "" {
				ok = false
			}
		}
		if !ok {
			continue
		}
		want, ok := app.eval(vals)
		if !ok {
			continue
		}
		got := e.sol.GetValue(app.term)
		if sameModelValue(got, want) {
			continue
		}
		key := fmt.Sprint(app.term, vals)
		if seen[key] {
			continue
		}
		seen[key] = true
		// fact: at these concrete arguments the function has this value
		conds := ""
		for i, a := range app.args {
			conds += " (= " + a + " " + vals[i] + ")"
		}
		e.pendingFacts = append(e.pendingFacts, "(=> (and true"+conds+") (= "+app.term+" "+want+"))")
		added = true
	}
	for _, f := range e.pendingFacts {
		e.sol.Send("(assert " + f + ")")
	}
	e.pendingFacts = nil
	return added
}

func sameModelValue(got, want string) bool {
	got, want = strings.TrimSpace(got), strings.TrimSpace(want)
	if got == want {
		return true
	}
	isBV := func(s string) bool {
		return strings.HasPrefix(s, "#x") || strings.HasPrefix(s, "#b") || strings.HasPrefix(s, "(_ bv")
	}
	if isBV(got) && isBV(want) {
		return parseBV(got) == parseBV(want)
	}
	g, ok1 := parseFP(got)
	w, ok2 := parseFP(want)
	if ok1 && ok2 {
		return math.Float64bits(g) == math.Float64bits(w) || (g != g && w != w)
	}
	return false
}

// firstMismatch returns the first recorded application (in creation order,
// inner applications first) whose value in the current model differs from
// the native function at the model's arguments.
func (e *Exec) firstMismatch() (app *ufApp, vals []string, want string) {
	for i := range e.ufApps {
		a := &e.ufApps[i]
		vs := make([]string, len(a.args))
		ok := true
		for j, t := range a.args {
			vs[j] = e.sol.GetValue(t)
			if vs[j] == "" {
				ok = false
			}
		}
		if !ok {
			continue
		}
		w, ok := a.eval(vs)
		if !ok {
			continue
		}
		if sameModelValue(e.sol.GetValue(a.term), w) {
			continue
		}
		return a, vs, w
	}
	return nil, nil, ""
}

func ufFact(a *ufApp, vals []string, want string) string {
	conds := ""
	for i, t := range a.args {
		conds += " (= " + t + " " + vals[i] + ")"
	}
	return "(=> (and true" + conds + ") (= " + a.term + " " + want + "))"
}

// pinnedDescent: the solver holds a sat model.  Fix the arguments of the
// first mismatching application to the model's values and give the
// application its native value there, re-check, and repeat for the next
// mismatch (inner applications first, so the arguments of outer ones settle).
// Ends with a model in which every application has its native value (true:
// a real counterexample; its inputs are cached for the caller), or with the
// finding that this concrete point is not one (false; the facts learned are
// returned so that the caller can state them outside the scope).
func (e *Exec) pinnedDescent() (consistent bool, res string, facts []string) {
	e.sol.Send("(push 1)")
	defer e.sol.Send("(pop 1)")
	// a push discards the model: ask again
	if res = e.sol.Check(); res != "sat" {
		return false, res, nil
	}
	for it := 0; it <= len(e.ufApps)+1; it++ {
		a, vals, want := e.firstMismatch()
		if a == nil {
			e.cachedModel = e.model()
			return true, "sat", facts
		}
		for i, t := range a.args {
			e.sol.Send("(assert (= " + t + " " + vals[i] + "))")
		}
		e.sol.Send("(assert (= " + a.term + " " + want + "))")
		facts = append(facts, ufFact(a, vals, want))
		res = e.sol.Check()
		if res != "sat" {
			return false, res, facts
		}
	}
	return false, "unknown", facts
}

// checkRefined is check-sat followed by counterexample-guided refinement of
// the uninterpreted functions.  "sat" is only returned for a model in which
// every recorded application agrees with the native function.
func (e *Exec) checkRefined() string {
	e.cachedModel = nil
	for round := 0; round < 10; round++ {
		r := e.sol.Check()
		if r != "sat" || len(e.ufApps) == 0 {
			return r
		}
		if a, _, _ := e.firstMismatch(); a == nil {
			return "sat"
		}
		ok, res, facts := e.pinnedDescent()
		if ok {
			return "sat"
		}
		if res == "unknown" {
			return "unknown"
		}
		// that concrete point is not a counterexample; what was learned
		// there is true everywhere, state it and look for another point
		for _, f := range facts {
			e.sol.Send("(assert " + f + ")")
		}
		e.st.UFRefinements++
	}
	if os.Getenv("VERIF_DEBUG") != "" {
		fmt.Println("DEBUG non-convergent refinement")
	}
	e.incon("UF refinement did not converge")
	return "unknown"
}

// probeViolation is the fallback when the solver answers unknown to
// "path condition and not cond" (hard arithmetic): take models of the path
// condition alone, fix every symbolic input to the model's value, settle the
// uninterpreted functions natively at that point and ask again - now a
// ground query.  A sat answer is a real counterexample (cached for the
// caller); anything else leaves the verdict unknown.  Called with the solver
// at the path level.
func (e *Exec) probeViolation(notCond string) bool {
	e.cachedModel = nil
	e.sol.Send("(push 1)")
	defer e.sol.Send("(pop 1)")
	dbg := os.Getenv("VERIF_DEBUG") != ""
	for k := 0; k < 4; k++ {
		if r := e.sol.Check(); r != "sat" {
			if dbg {
				fmt.Println("DEBUG probe: path condition", r)
			}
			return false
		}
		var pins []string
		for _, in := range e.inputs {
			if in.term == nil {
				continue
			}
			v := e.sol.GetValue(in.term.S)
			if v == "" {
				return false
			}
			pins = append(pins, "(= "+in.term.S+" "+v+")")
		}
		if len(pins) == 0 {
			return false
		}
		e.sol.Send("(push 1)")
		for _, pn := range pins {
			e.sol.Send("(assert " + pn + ")")
		}
		found := false
		ok := e.sol.Check() == "sat"
		// give every application its native value at this point, inner
		// applications first (their values are arguments of the outer ones)
		for i := 0; i < len(e.ufApps) && ok; i++ {
			a := &e.ufApps[i]
			vals := make([]string, len(a.args))
			for j, t := range a.args {
				vals[j] = e.sol.GetValue(t)
			}
			want, evalOK := a.eval(vals)
			if !evalOK {
				continue
			}
			e.sol.Send("(assert (= " + a.term + " " + want + "))")
			ok = e.sol.Check() == "sat"
		}
		if dbg {
			fmt.Println("DEBUG probe: point", k, "settled", ok)
		}
		if ok {
			e.sol.Send("(assert " + notCond + ")")
			r := e.sol.Check()
			if dbg {
				fmt.Println("DEBUG probe: ground check", r)
			}
			if r == "sat" {
				if a, _, _ := e.firstMismatch(); a == nil {
					e.cachedModel = e.model()
					found = true
				}
			}
		}
		e.sol.Send("(pop 1)")
		if found {
			return true
		}
		// another point next time
		e.sol.Send("(assert (not (and true " + strings.Join(pins, " ") + ")))")
	}
	return false
}
