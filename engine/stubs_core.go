package main

import (
	"fmt"
	"go/token"
	"go/types"
	"math"
	"strconv"
	"strings"

	"golang.org/x/tools/go/ssa"
)

type stubFn func(e *Exec, fn *ssa.Function, args []value) value

var stubs = map[string]stubFn{}

// never-interpreted packages: an unstubbed function from one of these is an
// inconclusive result, never silently executed.
var opaquePkgs = map[string]bool{
	"time": true, "reflect": true, "internal/reflectlite": true, "unsafe": true, "runtime": true,
	"os": true, "net": true, "net/http": true, "syscall": true, "encoding/json": true,
	"regexp": true, "regexp/syntax": true, "fmt": true, "log": true, "expvar": true, "flag": true,
	"context": true, "sync": true, "sync/atomic": true, "hash": true, "text/tabwriter": true,
	"runtime/debug": true, "math": true, "strconv": true, "os/signal": true, "crypto/sha256": true,
	"math/rand": true, "io/fs": true, "path/filepath": true, "errors": true, "internal/bytealg": true,
	"github.com/golang/glog": true, "github.com/pkg/errors": true,
}

// transparentFns are functions of otherwise opaque packages that are pure
// string code and are interpreted from their own source.
var transparentFns = map[string]bool{
	"path/filepath.Match": true, "path/filepath.scanChunk": true, "path/filepath.matchChunk": true, "path/filepath.getEsc": true,
}

func opaquePkg(p *ssa.Package) bool {
	if p == nil {
		return false
	}
	path := p.Pkg.Path()
	if opaquePkgs[path] {
		return true
	}
	return strings.HasPrefix(path, "github.com/prometheus/") || strings.HasPrefix(path, "crypto/") ||
		strings.HasPrefix(path, "internal/") || strings.HasPrefix(path, "runtime/")
}

var stubCache = map[*ssa.Function]stubFn{}
var stubCacheMu = newRW()

func (e *Exec) stubFor(fn *ssa.Function) stubFn {
	stubCacheMu.RLock()
	s, ok := stubCache[fn]
	stubCacheMu.RUnlock()
	if ok {
		return s
	}
	name := fn.String()
	s = stubs[name]
	if s == nil && fn.Pkg == nil && fn.Origin() != nil {
		// instantiated generic
		s = stubs[fn.Origin().String()]
	}
	if s == nil && transparentFns[name] {
		stubCacheMu.Lock()
		stubCache[fn] = nil
		stubCacheMu.Unlock()
		return nil
	}
	if s == nil && opaquePkg(fn.Package()) && fn.Blocks != nil && !(fn.Name() == "init" && fn.Synthetic != "") {
		s = func(e *Exec, fn *ssa.Function, args []value) value {
			if e.lenient() {
				res := fn.Signature.Results()
				if res.Len() == 0 {
					return nil
				}
				return zero(res)
			}
			panic(inconclusive{"unmodelled external function " + fn.String()})
		}
	}
	stubCacheMu.Lock()
	stubCache[fn] = s
	stubCacheMu.Unlock()
	return s
}

// lenient is true while package initialisers run: unmodelled external calls
// made from a package-level var initialiser return zero values.
func (e *Exec) lenient() bool { return e.inInit > 0 }

func argStr(v value) string {
	s, ok := v.(string)
	if !ok {
		panic(inconclusive{"symbolic string where a concrete one is required"})
	}
	return s
}

func (e *Exec) addInput(tag, kind string, t *Term, conc value) {
	e.inputs = append(e.inputs, InputRec{Tag: tag, Kind: kind, term: t, conc: conc})
}

// nextConcrete returns the next value of the concrete replay vector.
func (e *Exec) nextConcrete(kind string) (string, bool) {
	if e.sh.cfg.Concrete == nil {
		return "", false
	}
	if e.concPos >= len(e.sh.cfg.Concrete) {
		panic(pathAbort{"concrete vector exhausted"})
	}
	s := e.sh.cfg.Concrete[e.concPos]
	e.concPos++
	return s, true
}

// intrinsic handles functions without bodies: the harness vocabulary.
func (e *Exec) intrinsic(fn *ssa.Function, args []value) value {
	switch fn.Name() {
	case "nondetInt", "nondetInt64":
		tag := argStr(args[0])
		kind := "int64"
		if s, ok := e.nextConcrete(kind); ok {
			i, _ := strconv.ParseInt(s, 10, 64)
			e.addInput(tag, kind, nil, i)
			return mkI64(i)
		}
		t := e.fresh(tag, bvSort(64))
		e.addInput(tag, kind, t, nil)
		return Int{W: 64, S: true, T: t}
	case "nondetUint64":
		tag := argStr(args[0])
		if s, ok := e.nextConcrete("uint64"); ok {
			u, _ := strconv.ParseUint(s, 10, 64)
			e.addInput(tag, "uint64", nil, u)
			return mkInt(64, false, u)
		}
		t := e.fresh(tag, bvSort(64))
		e.addInput(tag, "uint64", t, nil)
		return Int{W: 64, S: false, T: t}
	case "nondetByte":
		tag := argStr(args[0])
		if s, ok := e.nextConcrete("byte"); ok {
			u, _ := strconv.ParseUint(s, 10, 8)
			e.addInput(tag, "byte", nil, u)
			return mkByte(byte(u))
		}
		t := e.fresh(tag, bvSort(8))
		e.addInput(tag, "byte", t, nil)
		return Int{W: 8, T: t}
	case "nondetBool":
		tag := argStr(args[0])
		if s, ok := e.nextConcrete("bool"); ok {
			e.addInput(tag, "bool", nil, s == "true")
			return Bool{C: s == "true"}
		}
		t := e.fresh(tag, "Bool")
		e.addInput(tag, "bool", t, nil)
		return Bool{T: t}
	case "nondetFloat64":
		tag := argStr(args[0])
		if s, ok := e.nextConcrete("float64"); ok {
			u, _ := strconv.ParseUint(s, 10, 64)
			e.addInput(tag, "float64", nil, u)
			return Float{C: math.Float64frombits(u)}
		}
		t := e.fresh(tag, fpSort)
		e.addInput(tag, "float64", t, nil)
		return Float{T: t}
	case "nondetRange":
		// concretising choice in [lo,hi]: forks without the solver
		tag := argStr(args[0])
		lo, hi := args[1].(Int).signed(), args[2].(Int).signed()
		if s, ok := e.nextConcrete("range"); ok {
			i, _ := strconv.ParseInt(s, 10, 64)
			if i < lo || i > hi {
				panic(pathAbort{"concrete range value out of bounds"})
			}
			e.addInput(tag, "range", nil, i)
			return mkI64(i)
		}
		if hi < lo {
			panic(pathAbort{"empty range"})
		}
		d := e.choose(int(hi - lo + 1))
		e.addInput(tag, "range", nil, lo+int64(d))
		return mkI64(lo + int64(d))
	case "vParam":
		name := argStr(args[0])
		v, ok := e.sh.cfg.Params[name]
		if !ok {
			v = args[1].(Int).signed()
		}
		return mkI64(v)
	case "vAssume":
		c := args[0].(Bool)
		if c.T == nil {
			if !c.C {
				panic(pathAbort{"assume false"})
			}
			return nil
		}
		if d, ok := e.decided[c.T.S]; ok {
			if !d {
				panic(pathAbort{"assume false"})
			}
			return nil
		}
		if !e.feasible(c.T) {
			panic(pathAbort{"assume infeasible"})
		}
		e.assert(c.T)
		e.decided[c.T.S] = true
		return nil
	case "vAssert":
		e.vAssert(args[0].(Bool), argStr(args[1]))
		return nil
	case "vKnown":
		e.known = append(e.known, knownCond{id: argStr(args[0]), cond: args[1].(Bool)})
		return nil
	case "vObserve":
		e.observed = append(e.observed, argStr(args[0])+"="+e.obsString(args[1]))
		return nil
	case "vBlockedGoroutines":
		e.quiesce()
		return mkI64(int64(e.blockedOthers()))
	case "vQuiesce":
		e.quiesce()
		return nil
	case "vDelay":
		e.delay()
		return nil
	case "vRelease":
		e.release()
		return nil
	case "vLockFree":
		p := args[0].(iface).v.(*value)
		l := e.lockOf(p)
		return Bool{C: !l.writer && l.readers == 0}
	case "vPanics":
		return mkI64(int64(len(e.panicsLogged)))
	case "vExpvar":
		key := argStr(args[0]) + "/" + expvarKey(args[1])
		if o := e.expvar[key]; o != nil {
			return o.v
		}
		return mkI64(0)
	case "vSetMatch":
		// vSetMatch(re *regexp.Regexp, result []string): the next
		// FindStringSubmatch calls on re return result.
		e.matchTable[args[0].(*value)] = args[1]
		return nil
	case "vSetMatchOn":
		// vSetMatchOn(re, subject, result): FindStringSubmatch(subject) on re returns result
		re := args[0].(*value)
		e.matchOn[re] = append(e.matchOn[re], matchEntry{subject: args[1], result: args[2]})
		return nil
	case "vIsNaN":
		f := args[0].(Float)
		if f.T == nil {
			return Bool{C: f.C != f.C}
		}
		return Bool{T: &Term{S: "(fp.isNaN " + f.T.S + ")"}}
	case "vFloatSame":
		// bit-for-bit equal or both NaN
		a, b := args[0].(Float), args[1].(Float)
		if a.T == nil && b.T == nil {
			return Bool{C: math.Float64bits(a.C) == math.Float64bits(b.C) || (a.C != a.C && b.C != b.C)}
		}
		return Bool{T: &Term{S: "(= " + a.term().S + " " + b.term().S + ")"}}
	case "vImplies":
		return bor(bnot(args[0].(Bool)), args[1].(Bool))
	case "vAnd":
		return band(args[0].(Bool), args[1].(Bool))
	case "vOr":
		return bor(args[0].(Bool), args[1].(Bool))
	case "vIte":
		c := args[0].(Bool)
		a, b := args[1].(Int), args[2].(Int)
		if c.T == nil {
			if c.C {
				return a
			}
			return b
		}
		return Int{W: a.W, S: a.S, T: &Term{S: "(ite " + c.T.S + " " + a.term().S + " " + b.term().S + ")"}}
	case "vStrEq", "vSameLines":
		// vSameLines: both records are built by the same code ranging over
		// maps filled in the same order, and the engine's maps iterate in
		// insertion order, so equal line multisets are equal strings here
		return bytesEq(strBytes(args[0]), strBytes(args[1]))
	case "vConcrete":
		// vConcrete(x int) int: fork over the feasible values of x
		return e.concretize(args[0].(Int))
	case "vClockSet":
		// make the next time.Now() return exactly this many ns since the epoch
		x := args[0].(Int)
		e.clockNext = &x
		return nil
	case "vFault":
		// a fault point: the solver chooses whether it fires
		return Bool{C: e.fault(argStr(args[0]))}
	case "vClockFreeze":
		// from now on every time.Now() returns the same (symbolic) instant
		e.clockFrozen = true
		return nil
	case "vFaultsFired":
		return mkI64(int64(e.faultSeq))
	}
	if r, ok := e.promIntrinsic(fn.Name(), args); ok {
		return r
	}
	if r, ok := e.netIntrinsic(fn.Name(), args); ok {
		return r
	}
	if r, ok := e.fsIntrinsic(fn.Name(), args); ok {
		return r
	}
	if r, ok := e.raceIntrinsic(fn.Name(), args); ok {
		return r
	}
	if e.lenient() {
		res := fn.Signature.Results()
		if res.Len() == 0 {
			return nil
		}
		return zero(res)
	}
	panic(inconclusive{"external function without body: " + fn.String()})
}

func (e *Exec) obsString(v value) string {
	switch v := v.(type) {
	case iface:
		return e.obsString(v.v)
	case Int:
		if v.isConc() {
			if v.S {
				return strconv.FormatInt(v.signed(), 10)
			}
			return strconv.FormatUint(v.C, 10)
		}
		return "<sym>"
	case Bool:
		if v.T == nil {
			return strconv.FormatBool(v.C)
		}
		return "<sym>"
	case Float:
		if v.T == nil {
			return strconv.FormatUint(math.Float64bits(v.C), 10)
		}
		return "<sym>"
	case string:
		return strconv.Quote(v)
	case SStr:
		return "<sym>"
	}
	return fmt.Sprintf("<%T>", v)
}

type expvarObj struct {
	name string
	v    Int
}

// expvarInt resolves the receiver of an (*expvar.Int) method: a published
// variable (expvar.NewInt) or a plain new(expvar.Int), which is its own store.
func (e *Exec) expvarInt(recv value) *expvarObj {
	p := recv.(*value)
	if s, ok := (*p).(string); ok {
		return e.expvarGet(strings.TrimPrefix(s, "int:") + "/")
	}
	if e.expvarAnon == nil {
		e.expvarAnon = map[*value]*expvarObj{}
	}
	o := e.expvarAnon[p]
	if o == nil {
		o = &expvarObj{name: "<anonymous>", v: mkI64(0)}
		e.expvarAnon[p] = o
	}
	return o
}

func expvarKey(v value) string {
	if s, ok := v.(string); ok {
		return s
	}
	return "<symbolic>"
}

func (e *Exec) expvarGet(key string) *expvarObj {
	o := e.expvar[key]
	if o == nil {
		o = &expvarObj{name: key, v: mkI64(0)}
		e.expvar[key] = o
		e.expvarOrder = append(e.expvarOrder, key)
	}
	return o
}

// newError fabricates an error value with a stable identity.
type errObj struct {
	msg   value // string or SStr
	cause value // wrapped error (iface) or nil
}

// newErrorV is newError with a (possibly symbolic) message.
func (e *Exec) newErrorV(msg value, cause value) iface {
	return iface{t: errType, v: &errObj{msg: msg, cause: cause}}
}

// errMsg is err.Error() for modelled errors, "<error>" otherwise.
func errMsg(v value) value {
	if i, ok := v.(iface); ok {
		if o, ok := i.v.(*errObj); ok {
			return o.msg
		}
	}
	return "<error>"
}

func (o *errObj) invoke(e *Exec, method string, args []value) value {
	switch method {
	case "Error":
		return o.msg
	case "Unwrap", "Cause":
		if o.cause == nil {
			return iface{}
		}
		return o.cause
	}
	panic(inconclusive{"method " + method + " on modelled error"})
}

var errType = types.NewNamed(types.NewTypeName(token.NoPos, nil, "verif.error", nil), types.NewStruct(nil, nil), nil)

func (e *Exec) newError(msg string, cause value) iface {
	return iface{t: errType, v: &errObj{msg: msg, cause: cause}}
}

func errIs(err, target iface) bool {
	for {
		if err.t == nil {
			return false
		}
		if target.t != nil && err.v == target.v {
			return true
		}
		o, ok := err.v.(*errObj)
		if !ok || o.cause == nil {
			return false
		}
		err = o.cause.(iface)
	}
}

func mutexPtr(v value) *value { return v.(*value) }

// lookupMethodOrNil finds an exported method by name, nil if the type has none.
func (e *Exec) lookupMethodOrNil(t types.Type, name string) *ssa.Function {
	sel := e.prog.MethodSets.MethodSet(t).Lookup(nil, name)
	if sel == nil {
		return nil
	}
	return e.prog.MethodValue(sel)
}

func init() {
	nop := func(e *Exec, fn *ssa.Function, args []value) value {
		res := fn.Signature.Results()
		if res.Len() == 0 {
			return nil
		}
		return zero(res)
	}
	// glog at the always-on levels formats its arguments: the text goes
	// nowhere, but String()/Error() of the arguments are called (a String
	// method that takes a lock is part of the behaviour of the call site)
	logFmt := func(e *Exec, fn *ssa.Function, args []value) value {
		for _, a := range args {
			vs, ok := a.([]value)
			if !ok {
				continue
			}
			for _, x := range vs {
				i, ok := x.(iface)
				if !ok || i.t == nil {
					continue
				}
				if _, nat := i.v.(nativeObj); nat {
					continue
				}
				for _, mn := range []string{"Error", "String"} {
					if m := e.lookupMethodOrNil(i.t, mn); m != nil && m.Signature.Params().Len() == 0 && isMtailPkg(m.Package()) {
						e.call(m, []value{i.v})
						break
					}
				}
			}
		}
		return nil
	}
	for _, n := range []string{
		"github.com/golang/glog.Info", "github.com/golang/glog.Infof", "github.com/golang/glog.Infoln",
		"github.com/golang/glog.Warning", "github.com/golang/glog.Warningf", "github.com/golang/glog.Error", "github.com/golang/glog.Errorf",
	} {
		stubs[n] = logFmt
	}
	for _, n := range []string{
		"(github.com/golang/glog.Verbose).Info", "(github.com/golang/glog.Verbose).Infof", "(github.com/golang/glog.Verbose).Infoln", "(github.com/golang/glog.Verbose).InfoContextf", "(github.com/golang/glog.Verbose).InfoContext",
		"runtime/debug.Stack", "fmt.Printf", "fmt.Println", "fmt.Print", "log.Printf", "log.Println",
		"(*text/tabwriter.Writer).Init", "(*text/tabwriter.Writer).Flush",
		"os/signal.Notify", "os/signal.Stop", "runtime.Gosched", "runtime.KeepAlive",
		"(*time.Timer).Stop", "(*time.Ticker).Stop", "time.Sleep",
	} {
		stubs[n] = nop
	}
	stubs["github.com/golang/glog.V"] = func(e *Exec, fn *ssa.Function, args []value) value { return Bool{C: false} }
	stubs["time.AfterFunc"] = func(e *Exec, fn *ssa.Function, args []value) value { return (*value)(nil) }

	// sync
	stubs["(*sync.RWMutex).RLock"] = func(e *Exec, fn *ssa.Function, args []value) value {
		l := e.lockOf(mutexPtr(args[0]))
		e.block("RLock", func() bool { return !l.writer && l.writersWaiting == 0 })
		l.readers++
		e.raceLock(mutexPtr(args[0]), lockR, true)
		// an export point: concurrent line processing may arrive right after
		// an exporter has taken a metric's read lock (harness hook, if armed)
		if e.cur.id == 0 && !e.inExportPoint && strings.HasSuffix(e.race.names[mutexPtr(args[0])], "Metric.RWMutex") {
			e.inExportPoint = true
			e.exportPoint()
			e.inExportPoint = false
		}
		return nil
	}
	stubs["(*sync.RWMutex).TryRLock"] = func(e *Exec, fn *ssa.Function, args []value) value {
		l := e.lockOf(mutexPtr(args[0]))
		if !l.writer && l.writersWaiting == 0 {
			l.readers++
			e.raceLock(mutexPtr(args[0]), lockR, true)
			return Bool{C: true}
		}
		return Bool{C: false}
	}
	stubs["(*sync.RWMutex).RUnlock"] = func(e *Exec, fn *ssa.Function, args []value) value {
		l := e.lockOf(mutexPtr(args[0]))
		if l.readers == 0 {
			panic(goPanic{"fatal error: sync: RUnlock of unlocked RWMutex"})
		}
		l.readers--
		e.raceLock(mutexPtr(args[0]), lockR, false)
		e.yieldPoint(args[0])
		return nil
	}
	lock := func(e *Exec, fn *ssa.Function, args []value) value {
		l := e.lockOf(mutexPtr(args[0]))
		l.writersWaiting++
		e.block("Lock", func() bool { return !l.writer && l.readers == 0 })
		l.writersWaiting--
		l.writer = true
		e.raceLock(mutexPtr(args[0]), lockW, true)
		return nil
	}
	unlock := func(e *Exec, fn *ssa.Function, args []value) value {
		l := e.lockOf(mutexPtr(args[0]))
		if !l.writer {
			panic(goPanic{"fatal error: sync: Unlock of unlocked mutex"})
		}
		l.writer = false
		e.raceLock(mutexPtr(args[0]), lockW, false)
		e.yieldPoint(args[0])
		return nil
	}
	stubs["(*sync.RWMutex).Lock"], stubs["(*sync.Mutex).Lock"] = lock, lock
	stubs["(*sync.RWMutex).Unlock"], stubs["(*sync.Mutex).Unlock"] = unlock, unlock
	trylock := func(e *Exec, fn *ssa.Function, args []value) value {
		l := e.lockOf(mutexPtr(args[0]))
		if !l.writer && l.readers == 0 {
			l.writer = true
			e.raceLock(mutexPtr(args[0]), lockW, true)
			return Bool{C: true}
		}
		return Bool{C: false}
	}
	stubs["(*sync.RWMutex).TryLock"], stubs["(*sync.Mutex).TryLock"] = trylock, trylock
	stubs["(*sync.WaitGroup).Add"] = func(e *Exec, fn *ssa.Function, args []value) value {
		l := e.lockOf(mutexPtr(args[0]))
		l.readers += int(args[1].(Int).signed())
		if l.readers < 0 {
			panic(goPanic{"sync: negative WaitGroup counter"})
		}
		return nil
	}
	stubs["(*sync.WaitGroup).Done"] = func(e *Exec, fn *ssa.Function, args []value) value {
		l := e.lockOf(mutexPtr(args[0]))
		l.readers--
		if l.readers < 0 {
			panic(goPanic{"sync: negative WaitGroup counter"})
		}
		return nil
	}
	stubs["(*sync.WaitGroup).Wait"] = func(e *Exec, fn *ssa.Function, args []value) value {
		l := e.lockOf(mutexPtr(args[0]))
		e.block("WaitGroup.Wait", func() bool { return l.readers == 0 })
		return nil
	}
	stubs["(*sync.Once).Do"] = func(e *Exec, fn *ssa.Function, args []value) value {
		l := e.lockOf(mutexPtr(args[0]))
		if !l.writer {
			l.writer = true
			e.callClosure(args[1].(*closure), nil)
		}
		return nil
	}

	// sync/atomic on plain words
	load := func(e *Exec, fn *ssa.Function, args []value) value {
		e.raceRecord(args[0].(*value), false, true, "atomic load")
		return copyVal(*args[0].(*value))
	}
	store := func(e *Exec, fn *ssa.Function, args []value) value {
		e.raceRecord(args[0].(*value), true, true, "atomic store")
		*args[0].(*value) = args[1]
		return nil
	}
	add := func(e *Exec, fn *ssa.Function, args []value) value {
		p := args[0].(*value)
		e.raceRecord(p, true, true, "atomic add")
		*p = intBinop(token.ADD, (*p).(Int), args[1].(Int))
		return *p
	}
	for _, t := range []string{"Int64", "Uint64", "Int32", "Uint32"} {
		stubs["sync/atomic.Load"+t] = load
		stubs["sync/atomic.Store"+t] = store
		stubs["sync/atomic.Add"+t] = add
	}
	stubs["sync/atomic.CompareAndSwapInt64"] = func(e *Exec, fn *ssa.Function, args []value) value {
		p := args[0].(*value)
		if e.decide(eqInt((*p).(Int), args[1].(Int))) {
			*p = args[2]
			return Bool{C: true}
		}
		return Bool{C: false}
	}

	// expvar
	stubs["expvar.NewMap"] = func(e *Exec, fn *ssa.Function, args []value) value {
		p := new(value)
		*p = "map:" + argStr(args[0])
		return p
	}
	stubs["expvar.NewInt"] = func(e *Exec, fn *ssa.Function, args []value) value {
		p := new(value)
		*p = "int:" + argStr(args[0])
		return p
	}
	stubs["expvar.NewString"] = stubs["expvar.NewInt"]
	stubs["expvar.Publish"] = nop
	stubs["(*expvar.Map).Add"] = func(e *Exec, fn *ssa.Function, args []value) value {
		name := strings.TrimPrefix((*args[0].(*value)).(string), "map:")
		// a symbolic key (a program named by symbolic bytes) is accounted
		// under one bucket: at most one such name exists per path
		o := e.expvarGet(name + "/" + expvarKey(args[1]))
		o.v = intBinop(token.ADD, o.v, args[2].(Int)).(Int)
		return nil
	}
	stubs["(*expvar.Int).Add"] = func(e *Exec, fn *ssa.Function, args []value) value {
		o := e.expvarInt(args[0])
		o.v = intBinop(token.ADD, o.v, args[1].(Int)).(Int)
		return nil
	}
	stubs["(*expvar.Int).Set"] = func(e *Exec, fn *ssa.Function, args []value) value {
		e.expvarInt(args[0]).v = args[1].(Int)
		return nil
	}
	stubs["(*expvar.Int).Value"] = func(e *Exec, fn *ssa.Function, args []value) value {
		return e.expvarInt(args[0]).v
	}
	// Map.Set replaces the entry by the given variable
	stubs["(*expvar.Map).Set"] = func(e *Exec, fn *ssa.Function, args []value) value {
		name := strings.TrimPrefix((*args[0].(*value)).(string), "map:")
		key := name + "/" + expvarKey(args[1])
		v := args[2].(iface)
		p, ok := v.v.(*value)
		if !ok || p == nil {
			panic(inconclusive{"expvar.Map.Set with a variable that is not an *expvar.Int"})
		}
		if _, seen := e.expvar[key]; !seen {
			e.expvarOrder = append(e.expvarOrder, key)
		}
		e.expvar[key] = e.expvarInt(p)
		return nil
	}
	stubs["(*expvar.Int).String"] = func(e *Exec, fn *ssa.Function, args []value) value { return "<expvar>" }

	// flag: values are their defaults
	flagVal := func(idx int) stubFn {
		return func(e *Exec, fn *ssa.Function, args []value) value {
			p := new(value)
			*p = args[idx]
			return p
		}
	}
	for _, n := range []string{"String", "Int", "Bool", "Duration", "Int64", "Float64", "Uint"} {
		stubs["flag."+n] = flagVal(1)
	}

	// errors
	stubs["errors.New"] = func(e *Exec, fn *ssa.Function, args []value) value {
		return e.newError(fmtVal(args[0]), nil)
	}
	stubs["github.com/pkg/errors.New"] = stubs["errors.New"]
	stubs["github.com/pkg/errors.Errorf"] = func(e *Exec, fn *ssa.Function, args []value) value {
		va, _ := args[1].([]value)
		return e.newErrorV(mkStr(e.sprintf(argStr(args[0]), va)), nil)
	}
	stubs["fmt.Errorf"] = func(e *Exec, fn *ssa.Function, args []value) value {
		var cause value
		va, _ := args[1].([]value)
		for _, a := range va {
			if ia, ok := a.(iface); ok && ia.t == errType {
				cause = ia
			}
		}
		return e.newErrorV(mkStr(e.sprintf(argStr(args[0]), va)), cause)
	}
	wrap := func(e *Exec, fn *ssa.Function, args []value) value {
		err := args[0].(iface)
		if err.t == nil {
			return iface{}
		}
		// pkg/errors: "<message>: <cause>"
		var msg []Int
		if len(args) > 2 {
			va, _ := args[2].([]value)
			msg = e.sprintf(argStr(args[1]), va)
		} else {
			msg = strBytes(args[1])
		}
		msg = append(append(append([]Int{}, msg...), strBytes(": ")...), strBytes(errMsg(err))...)
		return e.newErrorV(mkStr(msg), err)
	}
	stubs["github.com/pkg/errors.Wrap"] = wrap
	stubs["github.com/pkg/errors.Wrapf"] = wrap
	stubs["github.com/pkg/errors.WithStack"] = func(e *Exec, fn *ssa.Function, args []value) value { return args[0] }
	stubs["errors.Is"] = func(e *Exec, fn *ssa.Function, args []value) value {
		return Bool{C: errIs(args[0].(iface), args[1].(iface))}
	}
	stubs["github.com/pkg/errors.Is"] = stubs["errors.Is"]
	stubs["github.com/pkg/errors.Cause"] = func(e *Exec, fn *ssa.Function, args []value) value {
		err := args[0].(iface)
		for {
			o, ok := err.v.(*errObj)
			if !ok || o.cause == nil {
				return err
			}
			err = o.cause.(iface)
		}
	}
}
