package main

import (
	"fmt"
	"go/token"
	"go/types"
	"math"
	"strconv"
	"strings"
	"sync"

	"golang.org/x/tools/go/ssa"
)

func newRW() *sync.RWMutex { return &sync.RWMutex{} }

func allConc(b []Int) bool {
	for _, x := range b {
		if !x.isConc() {
			return false
		}
	}
	return true
}

func concStr(v value) (string, bool) {
	s, ok := v.(string)
	return s, ok
}

// replaceAll models strings.ReplaceAll for a concrete, non-empty old.
func (e *Exec) replaceAll(s, old, nw []Int) []Int {
	if !allConc(old) {
		panic(inconclusive{"ReplaceAll with symbolic pattern"})
	}
	if len(old) == 0 {
		panic(inconclusive{"ReplaceAll with empty pattern"})
	}
	var out []Int
	i := 0
	for i < len(s) {
		match := i+len(old) <= len(s)
		if match {
			for j := range old {
				if s[i+j].X != nil {
					match = false
					break
				}
				if !e.cmpByte(s[i+j], old[j]) {
					match = false
					break
				}
			}
		}
		if match {
			out = append(out, nw...)
			i += len(old)
		} else {
			out = append(out, s[i])
			i++
		}
	}
	return out
}

func (e *Exec) opaqueInt(x Int) Int {
	k := "d"
	if !x.S {
		k = "u"
	}
	return Int{W: 8, X: &Opaque{Kind: k, I: x}}
}

func (e *Exec) opaqueUnk() Int {
	e.nopaque++
	e.declUF("unk_eq", "(Int Int) Bool")
	return Int{W: 8, X: &Opaque{Kind: "unk", ID: e.nopaque}}
}

// fmtArg renders one Sprintf operand.
func (e *Exec) fmtArg(verb byte, a value) []Int {
	if ia, ok := a.(iface); ok {
		if ia.t == nil {
			return strBytes("<nil>")
		}
		// Stringer / error on mtail types: call the method when it is cheap
		if verb == 's' || verb == 'v' {
			if no, ok := ia.v.(*errObj); ok {
				return strBytes(no.msg)
			}
		}
		a = ia.v
		if named, ok := ia.t.(*types.Named); ok && (verb == 'v' || verb == 's') {
			// named integer kinds with a String method (metrics.Kind, code.Opcode)
			if _, isInt := a.(Int); isInt {
				if m := e.prog.LookupMethod(named, named.Obj().Pkg(), "String"); m != nil {
					return strBytes(e.call(m, []value{a}))
				}
			}
		}
	}
	switch x := a.(type) {
	case string:
		if verb == 'q' {
			return strBytes(strconv.Quote(x))
		}
		if verb == 's' || verb == 'v' {
			return strBytes(x)
		}
	case SStr:
		if verb == 's' || verb == 'v' {
			return strBytes(x)
		}
		if verb == 'q' {
			// strconv.Quote of unknown bytes: unknown text, but equal to
			// another quoted string exactly when the strings are equal
			bs := strBytes(x)
			if hasOpaque(bs) {
				return []Int{e.opaqueUnk()}
			}
			return []Int{{W: 8, X: &Opaque{Kind: "q", Str: append([]Int{}, bs...)}}}
		}
	case Int:
		if verb == 'd' || verb == 'v' {
			if x.isConc() {
				if x.S {
					return strBytes(strconv.FormatInt(x.signed(), 10))
				}
				return strBytes(strconv.FormatUint(x.C, 10))
			}
			if x.FB != nil {
				return []Int{e.opaqueUnk()}
			}
			return []Int{e.opaqueInt(x)}
		}
		if x.isConc() {
			var r string
			if x.S {
				r = fmt.Sprintf("%"+string(verb), x.signed())
			} else {
				r = fmt.Sprintf("%"+string(verb), x.C)
			}
			return strBytes(r)
		}
	case Float:
		if x.T == nil {
			return strBytes(fmt.Sprintf("%"+string(verb), x.C))
		}
		k := string(verb)
		if verb == 'v' {
			k = "g"
		}
		return []Int{{W: 8, X: &Opaque{Kind: k, F: x}}}
	case Bool:
		if x.T == nil {
			return strBytes(strconv.FormatBool(x.C))
		}
	}
	return []Int{e.opaqueUnk()}
}

func (e *Exec) sprintf(format string, args []value) []Int {
	return e.sprintfSym(strBytes(format), args)
}

// sprintfV is Sprintf with a format that may itself hold symbolic bytes (a
// format built by concatenation with data).
func (e *Exec) sprintfV(format value, args []value) []Int {
	switch f := format.(type) {
	case string:
		return e.sprintf(f, args)
	case SStr:
		return e.sprintfSym(f.B, args)
	}
	panic(inconclusive{"Sprintf format is neither a string nor a symbolic string"})
}

// sprintfSym: a symbolic format byte is a literal unless it is '%' (one fork
// per symbolic byte); when it is '%', or when a verb or flag position holds a
// symbolic byte, everything from there on is an unknown string (what fmt
// prints then depends on the bytes that follow), which no comparison can
// prove equal to anything: candidates are settled by native replay.
func (e *Exec) sprintfSym(format []Int, args []value) []Int {
	var out []Int
	ai := 0
	isPct := func(b Int) bool {
		if b.X != nil {
			switch b.X.Kind {
			case "d", "u", "g":
				return false // formatted numbers hold no '%'
			}
			return true // unknown text: may hold a verb
		}
		if b.isConc() {
			return byte(b.C) == '%'
		}
		return e.cmpByte(b, mkByte('%'))
	}
	conc := func(b Int) (byte, bool) {
		if b.X != nil || !b.isConc() {
			return 0, false
		}
		return byte(b.C), true
	}
	for i := 0; i < len(format); i++ {
		if !isPct(format[i]) {
			out = append(out, format[i])
			continue
		}
		if _, ok := conc(format[i]); !ok {
			return append(out, e.opaqueUnk())
		}
		i++
		if i >= len(format) {
			out = append(out, strBytes("%!(NOVERB)")...)
			break
		}
		// flags / width are not modelled: opaque result for that operand
		plain := true
		for i < len(format) {
			c, ok := conc(format[i])
			if !ok {
				return append(out, e.opaqueUnk())
			}
			if strings.IndexByte("+-# 0123456789.", c) < 0 {
				break
			}
			plain = false
			i++
		}
		if i >= len(format) {
			break
		}
		v, _ := conc(format[i])
		if v == '%' {
			out = append(out, mkByte('%'))
			continue
		}
		if ai >= len(args) {
			out = append(out, strBytes("%!"+string(v)+"(MISSING)")...)
			continue
		}
		a := args[ai]
		ai++
		if !plain {
			out = append(out, e.opaqueUnk())
			continue
		}
		out = append(out, e.fmtArg(v, a)...)
	}
	if ai < len(args) {
		out = append(out, e.opaqueUnk())
	}
	return out
}

func (e *Exec) sprint(args []value) []Int {
	var out []Int
	for i, a := range args {
		_ = i
		out = append(out, e.fmtArg('v', a)...)
	}
	return out
}

// parseIntSym models strconv.ParseInt(s, base, 64) for base 10 on short
// symbolic strings (no overflow possible for len <= 18).
func (e *Exec) parseIntSym(bs []Int, base int64, bitSize int64) (Int, bool) {
	if base < 2 || base > 36 || bitSize != 64 {
		panic(inconclusive{"symbolic ParseInt with base 0 or bitSize != 64"})
	}
	if base != 10 && len(bs) > 12 {
		panic(inconclusive{"symbolic ParseInt (base != 10) on more than 12 bytes"})
	}
	if len(bs) > 18 {
		panic(inconclusive{"symbolic ParseInt on more than 18 bytes"})
	}
	if hasOpaque(bs) {
		// ParseInt(FormatInt(x)) == x
		if len(bs) == 1 && bs[0].X != nil && bs[0].X.Kind == "d" && bs[0].X.I.W == 64 {
			return bs[0].X.I, true
		}
		panic(inconclusive{"ParseInt on opaque string"})
	}
	if len(bs) == 0 {
		return Int{}, false
	}
	neg := false
	digits := bs
	isMinus := e.cmpByte(bs[0], mkByte('-'))
	if isMinus {
		neg = true
		digits = bs[1:]
	} else if e.cmpByte(bs[0], mkByte('+')) {
		digits = bs[1:]
	}
	if len(digits) == 0 {
		return Int{}, false
	}
	acc := mkI64(0)
	for _, b := range digits {
		var d Int
		if base == 10 {
			ge := intBinop(token.GEQ, b, mkByte('0')).(Bool)
			le := intBinop(token.LEQ, b, mkByte('9')).(Bool)
			if !e.decide(band(ge, le)) {
				// underscores are only legal with base 0
				return Int{}, false
			}
			d = e.conv(types.Typ[types.Int64], types.Typ[types.Uint8], intBinop(token.SUB, b, mkByte('0'))).(Int)
		} else {
			// digit value: 0-9, a-z and A-Z count from 10; must be below the base
			if b.isConc() {
				c := byte(b.C)
				v := int64(99)
				switch {
				case c >= '0' && c <= '9':
					v = int64(c - '0')
				case c >= 'a' && c <= 'z':
					v = int64(c-'a') + 10
				case c >= 'A' && c <= 'Z':
					v = int64(c-'A') + 10
				}
				if v >= base {
					return Int{}, false
				}
				d = mkI64(v)
			} else {
				t := b.term().S
				dv := fmt.Sprintf("(ite (and (bvuge %s #x30) (bvule %s #x39)) (bvsub %s #x30) (ite (and (bvuge %s #x61) (bvule %s #x7a)) (bvsub %s #x57) (ite (and (bvuge %s #x41) (bvule %s #x5a)) (bvsub %s #x37) #xff)))", t, t, t, t, t, t, t, t, t)
				valid := mkBoolT(&Term{S: "(bvult " + dv + " " + bvLit(uint64(base), 8) + ")"})
				if !e.decide(valid) {
					return Int{}, false
				}
				d = Int{W: 64, S: true, T: &Term{S: "((_ zero_extend 56) " + dv + ")"}}
			}
		}
		acc = intBinop(token.ADD, intBinop(token.MUL, acc, mkI64(base)).(Int), d).(Int)
	}
	if neg {
		if acc.isConc() {
			acc = mkI64(-acc.signed())
		} else {
			acc = Int{W: 64, S: true, T: &Term{S: "(bvneg " + acc.T.S + ")"}}
		}
	}
	return acc, true
}

func init() {
	stubs["bytes.IndexByte"] = func(e *Exec, fn *ssa.Function, args []value) value {
		b := sliceBytes(args[0])
		c := args[1].(Int)
		for i := range b {
			if e.cmpByte(b[i], c) {
				return mkI64(int64(i))
			}
		}
		return mkI64(-1)
	}
	stubs["strings.IndexByte"] = func(e *Exec, fn *ssa.Function, args []value) value {
		b := strBytes(args[0])
		c := args[1].(Int)
		for i := range b {
			if e.cmpByte(b[i], c) {
				return mkI64(int64(i))
			}
		}
		return mkI64(-1)
	}
	stubs["bytes.Equal"] = func(e *Exec, fn *ssa.Function, args []value) value {
		return bytesEq(sliceBytes(args[0]), sliceBytes(args[1]))
	}
	stubs["strings.ReplaceAll"] = func(e *Exec, fn *ssa.Function, args []value) value {
		return mkStr(e.replaceAll(strBytes(args[0]), strBytes(args[1]), strBytes(args[2])))
	}
	stubs["strings.HasPrefix"] = func(e *Exec, fn *ssa.Function, args []value) value {
		s, p := strBytes(args[0]), strBytes(args[1])
		if len(p) == 0 {
			return Bool{C: true}
		}
		if hasOpaque(p) {
			panic(inconclusive{"HasPrefix with opaque prefix"})
		}
		// compare the plain bytes in front of the first opaque piece: a
		// mismatch there decides the answer whatever the opaque piece holds
		k := 0
		for k < len(s) && k < len(p) && s[k].X == nil {
			k++
		}
		if k < len(p) {
			r := bytesEq(s[:k], p[:k])
			if r.T == nil && !r.C {
				return r
			}
			if k < len(s) || hasOpaque(s) {
				if r.T != nil && !e.decide(r) {
					return Bool{C: false}
				}
				panic(inconclusive{"HasPrefix on opaque string"})
			}
			return Bool{C: false}
		}
		return bytesEq(s[:len(p)], p)
	}
	stubs["strings.HasSuffix"] = func(e *Exec, fn *ssa.Function, args []value) value {
		s, p := strBytes(args[0]), strBytes(args[1])
		if hasOpaque(s) || hasOpaque(p) {
			panic(inconclusive{"HasSuffix on opaque string"})
		}
		if len(s) < len(p) {
			return Bool{C: false}
		}
		return bytesEq(s[len(s)-len(p):], p)
	}
	stubs["strings.Join"] = func(e *Exec, fn *ssa.Function, args []value) value {
		el, _ := args[0].([]value)
		sep := strBytes(args[1])
		var out []Int
		for i, s := range el {
			if i > 0 {
				out = append(out, sep...)
			}
			out = append(out, strBytes(s)...)
		}
		return mkStr(out)
	}
	stubs["strings.ToLower"] = func(e *Exec, fn *ssa.Function, args []value) value {
		if s, ok := concStr(args[0]); ok {
			return strings.ToLower(s)
		}
		bs := strBytes(args[0])
		out := make([]Int, len(bs))
		for i, b := range bs {
			if b.X != nil {
				panic(inconclusive{"ToLower on opaque string"})
			}
			if b.isConc() {
				if b.C >= 0x80 {
					panic(inconclusive{"ToLower on non-ASCII"})
				}
				c := byte(b.C)
				if 'A' <= c && c <= 'Z' {
					c += 'a' - 'A'
				}
				out[i] = mkByte(c)
				continue
			}
			// ASCII only: the harness must constrain symbolic bytes < 0x80
			if e.decide(intBinop(token.GEQ, b, mkByte(0x80)).(Bool)) {
				panic(inconclusive{"ToLower on symbolic non-ASCII byte"})
			}
			t := b.T.S
			out[i] = Int{W: 8, T: &Term{S: fmt.Sprintf("(ite (and (bvuge %s #x41) (bvule %s #x5a)) (bvadd %s #x20) %s)", t, t, t, t)}}
		}
		return mkStr(out)
	}
	stubs["(*strings.Builder).WriteString"] = func(e *Exec, fn *ssa.Function, args []value) value {
		p := args[0].(*value)
		st := (*p).(structure)
		buf, _ := st[1].([]value)
		bs := strBytes(args[1])
		for _, b := range bs {
			buf = append(buf, b)
		}
		st[1] = buf
		return tuple{mkI64(int64(len(bs))), iface{}}
	}
	stubs["(*strings.Builder).WriteByte"] = func(e *Exec, fn *ssa.Function, args []value) value {
		p := args[0].(*value)
		st := (*p).(structure)
		buf, _ := st[1].([]value)
		st[1] = append(buf, args[1])
		return iface{}
	}
	stubs["(*strings.Builder).Write"] = func(e *Exec, fn *ssa.Function, args []value) value {
		p := args[0].(*value)
		st := (*p).(structure)
		buf, _ := st[1].([]value)
		src, _ := args[1].([]value)
		st[1] = append(buf, src...)
		return tuple{mkI64(int64(len(src))), iface{}}
	}
	stubs["(*strings.Builder).String"] = func(e *Exec, fn *ssa.Function, args []value) value {
		p := args[0].(*value)
		st := (*p).(structure)
		buf, _ := st[1].([]value)
		return mkStr(sliceBytes(buf))
	}
	stubs["(*strings.Builder).Len"] = func(e *Exec, fn *ssa.Function, args []value) value {
		p := args[0].(*value)
		st := (*p).(structure)
		buf, _ := st[1].([]value)
		return mkI64(int64(len(buf)))
	}

	stubs["fmt.Sprintf"] = func(e *Exec, fn *ssa.Function, args []value) value {
		va, _ := args[1].([]value)
		return mkStr(e.sprintfV(args[0], va))
	}
	stubs["fmt.Sprint"] = func(e *Exec, fn *ssa.Function, args []value) value {
		va, _ := args[0].([]value)
		return mkStr(e.sprint(va))
	}
	// Fprintf / Fprint to an io.Writer: format, then call Write on the writer
	fprint := func(e *Exec, w iface, out []Int) value {
		if hasOpaque(out) {
			// writers that only record (harness sinks) accept opaque text
			// through the WriteString method if they have one
			if m := e.lookupMethod(w, "WriteString"); m != nil {
				r := e.call(m, []value{w.v, mkStr(out)})
				return r
			}
			panic(inconclusive{"Fprint of opaque text to a byte writer"})
		}
		if pv, ok := w.v.(*value); ok && pv != nil && isNamed(derefType(w.t), "strings", "Builder") {
			st := (*pv).(structure)
			buf, _ := st[1].([]value)
			st[1] = append(buf, bytesToSlice(out)...)
			return tuple{mkI64(int64(len(out))), iface{}}
		}
		if no, ok := w.v.(nativeObj); ok {
			return no.invoke(e, "Write", []value{bytesToSlice(out)})
		}
		m := e.lookupMethod(w, "Write")
		if m == nil {
			panic(inconclusive{"Fprint: writer without Write"})
		}
		return e.call(m, []value{w.v, bytesToSlice(out)})
	}
	stubs["fmt.Fprintf"] = func(e *Exec, fn *ssa.Function, args []value) value {
		va, _ := args[2].([]value)
		return fprint(e, args[0].(iface), e.sprintfV(args[1], va))
	}
	stubs["fmt.Fprint"] = func(e *Exec, fn *ssa.Function, args []value) value {
		va, _ := args[1].([]value)
		return fprint(e, args[0].(iface), e.sprint(va))
	}
	stubs["fmt.Fprintln"] = func(e *Exec, fn *ssa.Function, args []value) value {
		va, _ := args[1].([]value)
		var out []Int
		for i, a := range va {
			if i > 0 {
				out = append(out, mkByte(' '))
			}
			out = append(out, e.fmtArg('v', a)...)
		}
		out = append(out, mkByte('\n'))
		return fprint(e, args[0].(iface), out)
	}

	// strconv
	stubs["strconv.Itoa"] = func(e *Exec, fn *ssa.Function, args []value) value {
		return mkStr(e.fmtArg('d', args[0]))
	}
	stubs["strconv.FormatInt"] = func(e *Exec, fn *ssa.Function, args []value) value {
		x, base := args[0].(Int), args[1].(Int)
		if x.isConc() && base.isConc() {
			return strconv.FormatInt(x.signed(), int(base.signed()))
		}
		if base.isConc() && base.signed() == 10 {
			return mkStr(e.fmtArg('d', x))
		}
		panic(inconclusive{"FormatInt symbolic base"})
	}
	stubs["strconv.FormatFloat"] = func(e *Exec, fn *ssa.Function, args []value) value {
		x := args[0].(Float)
		f, prec, bits := args[1].(Int), args[2].(Int), args[3].(Int)
		if x.T == nil {
			return strconv.FormatFloat(x.C, byte(f.C), int(prec.signed()), int(bits.signed()))
		}
		if prec.signed() == -1 && bits.signed() == 64 {
			return mkStr([]Int{{W: 8, X: &Opaque{Kind: string(byte(f.C)), F: x}}})
		}
		panic(inconclusive{"FormatFloat symbolic with precision"})
	}
	stubs["strconv.Quote"] = func(e *Exec, fn *ssa.Function, args []value) value {
		if s, ok := concStr(args[0]); ok {
			return strconv.Quote(s)
		}
		return mkStr([]Int{e.opaqueUnk()})
	}
	stubs["strconv.ParseInt"] = func(e *Exec, fn *ssa.Function, args []value) value {
		base, bits := args[1].(Int), args[2].(Int)
		if s, ok := concStr(args[0]); ok && base.isConc() && bits.isConc() {
			v, err := strconv.ParseInt(s, int(base.signed()), int(bits.signed()))
			if err != nil {
				return tuple{mkI64(v), e.newError("strconv.ParseInt: "+err.Error(), nil)}
			}
			return tuple{mkI64(v), iface{}}
		}
		if !base.isConc() {
			base = e.concretize(base)
		}
		if e.sh.cfg.Params["concretize-floats"] == 1 && bits.isConc() && !hasOpaque(strBytes(args[0])) {
			// compiler jobs: literals are parsed value by value
			v, err := strconv.ParseInt(e.concretizeStr(args[0]), int(base.signed()), int(bits.signed()))
			if err != nil {
				return tuple{mkI64(v), e.newError("strconv.ParseInt: "+err.Error(), nil)}
			}
			return tuple{mkI64(v), iface{}}
		}
		v, ok := e.parseIntSym(strBytes(args[0]), base.signed(), bits.signed())
		if !ok {
			return tuple{mkI64(0), e.newError("strconv.ParseInt: invalid syntax", nil)}
		}
		return tuple{v, iface{}}
	}
	stubs["strconv.Atoi"] = func(e *Exec, fn *ssa.Function, args []value) value {
		if s, ok := concStr(args[0]); ok {
			v, err := strconv.Atoi(s)
			if err != nil {
				return tuple{mkI64(int64(v)), e.newError("strconv.Atoi: "+err.Error(), nil)}
			}
			return tuple{mkI64(int64(v)), iface{}}
		}
		v, ok := e.parseIntSym(strBytes(args[0]), 10, 64)
		if !ok {
			return tuple{mkI64(0), e.newError("strconv.Atoi: invalid syntax", nil)}
		}
		return tuple{v, iface{}}
	}
	stubs["strconv.ParseFloat"] = func(e *Exec, fn *ssa.Function, args []value) value {
		if s, ok := concStr(args[0]); ok {
			v, err := strconv.ParseFloat(s, int(args[1].(Int).signed()))
			if err != nil {
				return tuple{Float{C: v}, e.newError("strconv.ParseFloat: "+err.Error(), nil)}
			}
			return tuple{Float{C: v}, iface{}}
		}
		bs := strBytes(args[0])
		if !hasOpaque(bs) && e.sh.cfg.Params["concretize-floats"] == 1 {
			// compiler jobs: a literal with a symbolic byte is parsed value
			// by value (the lexer has pinned the byte to a few characters)
			s := e.concretizeStr(args[0])
			v, err := strconv.ParseFloat(s, int(args[1].(Int).signed()))
			if err != nil {
				return tuple{Float{C: v}, e.newError("strconv.ParseFloat: "+err.Error(), nil)}
			}
			return tuple{Float{C: v}, iface{}}
		}
		if hasOpaque(bs) {
			// ParseFloat(FormatFloat(x,'g',-1,64)) == x for non-NaN x
			if len(bs) == 1 && bs[0].X != nil && (bs[0].X.Kind == "g" || bs[0].X.Kind == "G") {
				return tuple{bs[0].X.F, iface{}}
			}
			if len(bs) == 1 && bs[0].X != nil && bs[0].X.Kind == "d" {
				return tuple{e.conv(types.Typ[types.Float64], types.Typ[types.Int64], bs[0].X.I), iface{}}
			}
			panic(inconclusive{"ParseFloat on opaque string"})
		}
		// uninterpreted: ok and value are functions of the bytes
		n := len(bs)
		var sig strings.Builder
		sig.WriteString("(")
		var as []string
		for _, b := range bs {
			sig.WriteString("(_ BitVec 8) ")
			as = append(as, b.term().S)
		}
		sig.WriteString(")")
		okN, valN := fmt.Sprintf("pf_ok_%d", n), fmt.Sprintf("pf_val_%d", n)
		if n == 0 {
			return tuple{Float{}, e.newError("strconv.ParseFloat: invalid syntax", nil)}
		}
		e.declUF(okN, sig.String()+" Bool")
		e.declUF(valN, sig.String()+" "+fpSort)
		okT := &Term{S: "(" + okN + " " + joinTerms(as) + ")"}
		bytesOf := func(vals []string) string {
			b := make([]byte, len(vals))
			for i, v := range vals {
				b[i] = byte(parseBV(v))
			}
			return string(b)
		}
		e.ufApps = append(e.ufApps,
			ufApp{term: okT.S, args: as, eval: func(vals []string) (string, bool) {
				_, err := strconv.ParseFloat(bytesOf(vals), 64)
				return strconv.FormatBool(err == nil), true
			}},
			ufApp{term: "(" + valN + " " + joinTerms(as) + ")", args: as, eval: func(vals []string) (string, bool) {
				f, err := strconv.ParseFloat(bytesOf(vals), 64)
				if err != nil {
					return "", false
				}
				return fpLit(f), true
			}})
		// a result that is NaN or infinite must have been spelled out
		// (nan, inf, infinity): out-of-range digits are an error
		var letters []string
		for _, a := range as {
			letters = append(letters, fmt.Sprintf("(= (bvor %s #x20) #x6e) (= (bvor %s #x20) #x69)", a, a))
		}
		vt := "(" + valN + " " + joinTerms(as) + ")"
		e.assert(&Term{S: fmt.Sprintf("(=> (and %s (not (or %s))) (not (or (fp.isNaN %s) (fp.isInfinite %s))))", okT.S, strings.Join(letters, " "), vt, vt)})
		if !e.branch(okT) {
			return tuple{Float{}, e.newError("strconv.ParseFloat: invalid syntax", nil)}
		}
		return tuple{Float{T: &Term{S: vt}}, iface{}}
	}

	// sort
	stubs["sort.Strings"] = func(e *Exec, fn *ssa.Function, args []value) value {
		s, _ := args[0].([]value)
		for i := 1; i < len(s); i++ {
			for j := i; j > 0 && e.strLess(strBytes(s[j]), strBytes(s[j-1])); j-- {
				s[j], s[j-1] = s[j-1], s[j]
			}
		}
		return nil
	}
	stubs["sort.Float64s"] = func(e *Exec, fn *ssa.Function, args []value) value {
		s, _ := args[0].([]value)
		less := func(a, b Float) bool {
			// sort.Float64Slice.Less: a < b || (isNaN(a) && !isNaN(b))
			lt := floatBinop(token.LSS, a, b).(Bool)
			na := bnot(floatBinop(token.EQL, a, a).(Bool))
			nb := bnot(floatBinop(token.EQL, b, b).(Bool))
			return e.decide(bor(lt, band(na, bnot(nb))))
		}
		for i := 1; i < len(s); i++ {
			for j := i; j > 0 && less(s[j].(Float), s[j-1].(Float)); j-- {
				s[j], s[j-1] = s[j-1], s[j]
			}
		}
		return nil
	}
	stubs["sort.Slice"] = func(e *Exec, fn *ssa.Function, args []value) value {
		s, _ := args[0].(iface).v.([]value)
		less := args[1].(*closure)
		lt := func(i, j int) bool {
			return e.decide(e.callClosure(less, []value{mkI64(int64(i)), mkI64(int64(j))}).(Bool))
		}
		for i := 1; i < len(s); i++ {
			for j := i; j > 0 && lt(j, j-1); j-- {
				s[j], s[j-1] = s[j-1], s[j]
			}
		}
		return nil
	}
	stubs["sort.SliceStable"] = stubs["sort.Slice"]

	// math
	stubs["math.Inf"] = func(e *Exec, fn *ssa.Function, args []value) value {
		return Float{C: math.Inf(int(args[0].(Int).signed()))}
	}
	stubs["math.NaN"] = func(e *Exec, fn *ssa.Function, args []value) value { return Float{C: math.NaN()} }
	stubs["math.IsNaN"] = func(e *Exec, fn *ssa.Function, args []value) value {
		f := args[0].(Float)
		if f.T == nil {
			return Bool{C: f.C != f.C}
		}
		return Bool{T: &Term{S: "(fp.isNaN " + f.T.S + ")"}}
	}
	stubs["math.IsInf"] = func(e *Exec, fn *ssa.Function, args []value) value {
		f := args[0].(Float)
		sign := args[1].(Int).signed()
		if f.T == nil {
			return Bool{C: math.IsInf(f.C, int(sign))}
		}
		inf := "(fp.isInfinite " + f.T.S + ")"
		switch {
		case sign > 0:
			return Bool{T: &Term{S: "(and " + inf + " (fp.isPositive " + f.T.S + "))"}}
		case sign < 0:
			return Bool{T: &Term{S: "(and " + inf + " (fp.isNegative " + f.T.S + "))"}}
		}
		return Bool{T: &Term{S: inf}}
	}
	stubs["math.Float64bits"] = func(e *Exec, fn *ssa.Function, args []value) value {
		f := args[0].(Float)
		if f.T == nil {
			return mkInt(64, false, math.Float64bits(f.C))
		}
		return Int{W: 64, FB: &f}
	}
	stubs["math.Float64frombits"] = func(e *Exec, fn *ssa.Function, args []value) value {
		x := args[0].(Int)
		if x.FB != nil {
			return *x.FB
		}
		if x.isConc() {
			return Float{C: math.Float64frombits(x.C)}
		}
		return Float{T: &Term{S: "((_ to_fp 11 53) " + x.T.S + ")"}}
	}
	uf2 := func(name string, native func(a, b float64) float64) stubFn {
		return func(e *Exec, fn *ssa.Function, args []value) value {
			a, b := args[0].(Float), args[1].(Float)
			if a.T == nil && b.T == nil {
				return Float{C: native(a.C, b.C)}
			}
			e.declUF(name, "("+fpSort+" "+fpSort+") "+fpSort)
			t := "(" + name + " " + a.term().S + " " + b.term().S + ")"
			e.ufApps = append(e.ufApps, ufApp{term: t, args: []string{a.term().S, b.term().S}, eval: fp2(native)})
			return Float{T: &Term{S: t}}
		}
	}
	stubs["math.Mod"] = uf2("uf_math_mod", math.Mod)
	stubs["math.Pow"] = uf2("uf_math_pow", math.Pow)
	stubs["math.Abs"] = func(e *Exec, fn *ssa.Function, args []value) value {
		f := args[0].(Float)
		if f.T == nil {
			return Float{C: math.Abs(f.C)}
		}
		return Float{T: &Term{S: "(fp.abs " + f.T.S + ")"}}
	}
	for name, f := range map[string]func(float64) float64{"math.Floor": math.Floor, "math.Ceil": math.Ceil, "math.Trunc": math.Trunc, "math.Sqrt": math.Sqrt, "math.Log": math.Log, "math.Log10": math.Log10} {
		f := f
		name := name
		stubs[name] = func(e *Exec, fn *ssa.Function, args []value) value {
			x := args[0].(Float)
			if x.T == nil {
				return Float{C: f(x.C)}
			}
			// IEEE round-to-integral and square root are SMT-LIB operations
			switch name {
			case "math.Floor":
				return Float{T: &Term{S: "(fp.roundToIntegral RTN " + x.T.S + ")"}}
			case "math.Ceil":
				return Float{T: &Term{S: "(fp.roundToIntegral RTP " + x.T.S + ")"}}
			case "math.Trunc":
				return Float{T: &Term{S: "(fp.roundToIntegral RTZ " + x.T.S + ")"}}
			case "math.Sqrt":
				return Float{T: &Term{S: "(fp.sqrt RNE " + x.T.S + ")"}}
			}
			panic(inconclusive{name + " on symbolic float"})
		}
	}

	stubs["reflect.DeepEqual"] = func(e *Exec, fn *ssa.Function, args []value) value {
		a, b := args[0].(iface), args[1].(iface)
		if a.t == nil || b.t == nil {
			return Bool{C: a.t == nil && b.t == nil}
		}
		if !types.Identical(a.t, b.t) {
			return Bool{C: false}
		}
		return e.deepEqual(a.v, b.v)
	}
}

func (e *Exec) deepEqual(a, b value) Bool {
	switch x := a.(type) {
	case []value:
		y, _ := b.([]value)
		if (x == nil) != (y == nil) || len(x) != len(y) {
			return Bool{C: false}
		}
		r := Bool{C: true}
		for i := range x {
			r = band(r, e.deepEqual(x[i], y[i]))
		}
		return r
	case string, SStr, Int, Bool, Float:
		return e.eqValue(a, b)
	}
	panic(inconclusive{fmt.Sprintf("reflect.DeepEqual on %T", a)})
}

func derefType(t types.Type) types.Type {
	if p, ok := t.(*types.Pointer); ok {
		return p.Elem()
	}
	return t
}

func (e *Exec) lookupMethod(w iface, name string) *ssa.Function {
	if w.t == nil {
		return nil
	}
	ms := e.prog.MethodSets.MethodSet(w.t)
	for i := 0; i < ms.Len(); i++ {
		sel := ms.At(i)
		if sel.Obj().Name() == name {
			return e.prog.MethodValue(sel)
		}
	}
	return nil
}
