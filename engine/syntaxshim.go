package main

import "regexp/syntax"

type syntaxRegexp = syntax.Regexp

const syntaxOpCapture = syntax.OpCapture

func syntaxParse(p string) (*syntax.Regexp, error) { return syntax.Parse(p, syntax.Perl) }
