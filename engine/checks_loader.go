package main

import (
	"fmt"
	"os"
	"path/filepath"
	"regexp"
	"strconv"
	"strings"
)

const rtPkg = "github.com/google/mtail/internal/runtime"

// loaderGen reads the program texts (constants lv*) out of the loader
// harness, compiles each with the working tree's compiler (bridge) and
// generates verifCompile(name, content): the compiler's own answer for each
// text, as an object constructor or as the refusal.
func loaderGen() (map[string]string, error) {
	return loaderGenFor("runtime/loader.go", "runtime")
}

func loaderGenFor(harnessFile, pkg string) (map[string]string, error) {
	src, err := readHarness(harnessFile)
	if err != nil {
		return nil, err
	}
	re := regexp.MustCompile(`(?m)^\s+(lv\w+)\s+= ("(?:[^"\\]|\\.)*")$`)
	var names []string
	var ins []bridgeIn
	for _, m := range re.FindAllStringSubmatch(src, -1) {
		txt, err := strconv.Unquote(m[2])
		if err != nil {
			return nil, err
		}
		names = append(names, m[1])
		ins = append(ins, bridgeIn{Name: "PROG", Src: txt})
	}
	if len(ins) < 1 {
		return nil, fmt.Errorf("loader harness: program texts not found")
	}
	outs, err := runBridge(ins)
	if err != nil {
		return nil, err
	}
	var b strings.Builder
	b.WriteString(genHeaderPkg(pkg, "github.com/pkg/errors"))
	b.WriteString("var _ = errors.New\n\n")
	var sw strings.Builder
	for i, o := range outs {
		if o.Errors != "" {
			fmt.Fprintf(&sw, "\tcase %s:\n\t\treturn nil, errors.New(\"compile error\")\n", names[i])
			continue
		}
		b.WriteString(genObjectFuncP("verifObjL_"+names[i], o, nil, true))
		fmt.Fprintf(&sw, "\tcase %s:\n\t\treturn verifObjL_%s(name), nil\n", names[i], names[i])
	}
	b.WriteString("// verifCompile is what the working tree's compiler answers for each program text of the loader harness.\nfunc verifCompile(name, content string) (*code.Object, error) {\n\tswitch content {\n")
	b.WriteString(sw.String())
	b.WriteString("\t}\n\tvAssert(false, \"L.setup\")\n\treturn nil, errors.New(\"unknown program text\")\n}\n")
	return map[string]string{"loader_objects.go": b.String()}, nil
}

func loaderJob(name, entry string, params map[string]int64, bound string, gen map[string]string) JobDef {
	return JobDef{Name: name, Pkg: rtPkg, Dir: "internal/runtime", Harness: []string{"runtime/loader.go"}, Entry: entry,
		GenFiles: gen, Params: params, Bound: bound}
}

var loaderAssumptions = append([]string{
	"the file system is a model (entries directly under one directory; os.Stat, os.ReadDir sorted by name, os.OpenFile, File.Read/Close); natively the same harness runs on a real temporary directory",
	"the compiler's answer for each of the harness's program texts is pre-computed with the working tree's compiler (compile bridge) and replayed by a stub of Compiler.Compile; natively the real compiler runs",
	"sha256 is computed natively over the concrete contents; io.TeeReader, io.Copy, bytes.Buffer, strings.Reader are interpreted from their own source",
	"VM goroutines started by CompileAndRun run under the engine's deterministic scheduler; lines are not sent (the version that runs is identified by its object), so ordering across reloads (C20) is not part of this check",
}, baseAssumptions...)

func init() {
	register(&CheckDef{ID: "C26", Level: "model_checking", Only: []string{"C26."}, Assumptions: loaderAssumptions,
		Jobs: func(tier string) []JobDef {
			gen, err := loaderGen()
			if err != nil {
				return []JobDef{{Name: "bridge-failed: " + err.Error(), Pkg: rtPkg, Dir: "internal/runtime", Entry: "missing"}}
			}
			steps, maxlen := 3, 7
			if tier == "thorough" {
				steps, maxlen = 4, 9
			}
			return []JobDef{
				loaderJob("eligible", "HarnessC26Eligible", p("minlen", 5, "maxlen", maxlen), fmt.Sprintf("one file whose name is 5..%d arbitrary bytes (no '/' or NUL) holding a valid program; LoadAllPrograms", maxlen), gen),
				loaderJob("history", "HarnessC26History", p("steps", steps), fmt.Sprintf("every history of %d edits over {a.mtail: valid v1 / valid v2 / broken, b.mtail: valid, remove a, remove b, rename b.mtail over a.mtail, add .h.mtail, add x.txt, mkdir d.mtail}, each followed by LoadAllPrograms", steps), gen),
			}
		},
		Outside: []string{"histories longer than the bound; more than two program files", "SIGHUP delivery and the signal goroutine", "nested directories' contents", "which lines a program receives while a reload is in progress (C20)"}})
}

// loaderC14Jobs: the CompileAndRun histories (C14 loader part, C25c).
func loaderC14Jobs(tier string) []JobDef {
	gen, err := loaderGen()
	if err != nil {
		return []JobDef{{Name: "bridge-failed: " + err.Error(), Pkg: rtPkg, Dir: "internal/runtime", Entry: "missing"}}
	}
	steps := 3
	if tier == "thorough" {
		steps = 4
	}
	return []JobDef{loaderJob("loader", "HarnessC14Loader", p("steps", steps, "versions", 6), fmt.Sprintf("every history of %d CompileAndRun calls of one program name over {v1, v1 + comment, v2, syntax error, refused registration (kind conflict with another program), keys changed, declaration moved}", steps), gen)}
}

// ---- C20: a line arriving while a reload is in progress ----

func c20Substs() []Subst {
	mu := `((?:\w+\.)+(?:handleMu|programErrorMu|insertMu|searchMu)\.)(R?Unlock)\(\)`
	var out []Subst
	for _, f := range []struct{ file, hook string }{{"internal/runtime/runtime.go", "metrics.VerifYield()"}, {"internal/metrics/store.go", "VerifYield()"}} {
		out = append(out,
			Subst{File: f.file, Re: true, Old: `(?m)^(\s*)defer ` + mu + `[ \t]*$`, New: "${1}defer func() { ${2}${3}(); " + f.hook + " }()"},
			Subst{File: f.file, Re: true, Old: `(?m)^(\s*)` + mu + `[ \t]*$`, New: "${1}${2}${3}(); " + f.hook})
	}
	// the entry of ProcessLogLine: a VM about to process a line
	out = append(out,
		Subst{File: "internal/runtime/vm/vm.go", Re: true, Old: `(?m)^(func \(v \*VM\) ProcessLogLine\([^)]*\) \{)$`, New: "${1}\n\tVerifPreempt()"},
		Subst{File: "internal/runtime/vm/vm.go", Re: true, Old: `\z`, New: "\n// VerifPreempt is called when a VM is about to process a line (replay hook).\nvar VerifPreempt = func() {}\n"})
	out = append(out, Subst{File: "internal/metrics/store.go", Re: true, Old: `\z`, New: "\n// VerifYield is called after every release of a store lock (replay hook).\nvar VerifYield = func() {}\n"})
	return out
}

func init() {
	register(&CheckDef{ID: "C20", Level: "model_checking", Only: []string{"C20."},
		Assumptions: append([]string{
			"the compiler's answer for each of the harness's program texts is pre-computed with the working tree's compiler (compile bridge) and replayed by a stub of Compiler.Compile; natively the real compiler runs",
			"the dispatcher goroutine of runtime.New and the VM goroutines run under the engine's deterministic scheduler: after each line they run until none can go on (natively: a 60 ms pause); the reloading goroutine is interleaved with them at its own lock-release points, where the solver decides whether the next line arrives, and a VM may be held back at the entry of ProcessLogLine (solver's choice) until the harness next waits or everything else is blocked (natively: an 80 ms sleep at that point)",
			"regexp matching of a concrete pattern on a concrete line is done by the real regexp package",
			"glog is a no-op, expvar a counter table, the clock is frozen",
		}, baseAssumptions...),
		Jobs: func(tier string) []JobDef {
			gen, err := loaderGen()
			if err != nil {
				return []JobDef{{Name: "bridge-failed: " + err.Error(), Pkg: rtPkg, Dir: "internal/runtime", Entry: "missing"}}
			}
			before, delays := 1, 1
			if tier == "thorough" {
				before, delays = 2, 2
			}
			j := loaderJob("reload-with-line", "HarnessC20Reload", p("before", before, "delays", delays), fmt.Sprintf("one program (an unconditional counter, scalar or with one constant label, or a gauge set from the line's number) loaded in the real runtime; 0..%d lines; one reload to the same declaration plus a comment or to a program with a different metric, with the next line arriving at any point at which the reloading goroutine releases handleMu/programErrorMu/insertMu/searchMu, or after the reload; one more line; up to %d times a VM that has received a line is held back before processing it until the harness next waits or the reloading goroutine has to wait; then the input closes", before, delays), gen)
			j.Harness = append(j.Harness, "runtime/c20.go")
			j.NativeOnly = []string{"runtime/c20_native.go"}
			j.Substs = c20Substs()
			// natively the dispatcher ranges over a Go map (random order) and
			// hold-backs are timed: a counterexample gets up to 6 native runs
			j.NativeRepeat = 6
			return []JobDef{j}
		},
		Outside: []string{"schedules of the dispatcher and VM goroutines other than run-to-quiescence with a VM held back before a line (preemption of a VM in the middle of a line, of the dispatcher between two programs)", "more than one reload; several programs; reloads through SIGHUP or the poll loop", "programs with patterns (every line is the same to these programs)"}})
}

// ---- C18: the tailer over the model file system ----

const tailerPkg = "github.com/google/mtail/internal/tailer"

func init() {
	register(&CheckDef{ID: "C18", Level: "model_checking", Only: []string{"C18."},
		Jobs: func(tier string) []JobDef {
			steps, maxlen := 2, 4
			if tier == "thorough" {
				steps, maxlen = 2, 5
			}
			return []JobDef{{Name: fmt.Sprintf("history-%d", steps), Pkg: tailerPkg, Dir: "internal/tailer",
				Harness: []string{"tailer/c18.go"}, Entry: "HarnessC18History", Params: p("steps", steps, "maxlen", maxlen),
				Bound: fmt.Sprintf("patterns <dir>/*.log and <dir>/a* with ignore expression \\.gz$; a.log present or not before the tailer starts; every history of %d steps over {create one of a.log b.log ab c.txt a.gz d.log, remove one of them, mkdir d.log, rename a.log to b.log, nothing}, each followed by a pattern poll and a stream poll, then one line appended to every existing file; plus one file whose name is 1..%d arbitrary bytes (no /, NUL or %%; not . or ..) that can be created and removed like the others", steps, maxlen)}}
		},
		Assumptions: append([]string{
			"the file system is the model of C16 (entries directly under one directory); filepath.Glob lists it with the real filepath.Match on the concrete names; url.Parse, filepath.Abs and the ignore expression's matcher are the real functions on concrete strings (natively: a temporary directory and the real functions)",
			"the tailer's and the streams' goroutines run under the engine's deterministic scheduler; after each wake-up they run until none can go on (natively: 60 ms), which is the property's 'after the next pattern poll' premise: nothing is claimed for edits that race with a poll",
		}, baseAssumptions...),
		Outside: []string{"histories longer than the bound; names outside the six-name universe; nested directories and patterns with directory wildcards", "unreadable files, symbolic links, sockets and pipes (C17)", "edits that race with a poll in progress"}})
}

// ---- C03 (reduced): the compiler pipeline on templates with symbolic bytes ----

func init() {
	register(&CheckDef{ID: "C03", Level: "model_checking", Only: []string{"C03."},
		Jobs: func(tier string) []JobDef {
			mk := func(nsym, nt int) JobDef {
				return JobDef{Name: fmt.Sprintf("templates-s%d-t%d", nsym, nt), Pkg: "github.com/google/mtail/internal/runtime/compiler", Dir: "internal/runtime/compiler",
					Harness: []string{"compiler/c03.go"}, Entry: "HarnessC03", Params: p("nsym", nsym, "ntemplates", nt, "concretize-floats", 1),
					Bound: fmt.Sprintf("the first %d of eleven program templates with %d adjacent byte(s) at an arbitrary position replaced by arbitrary bytes (two bytes: arbitrary ASCII bytes)", nt, nsym)}
			}
			if tier == "thorough" {
				return []JobDef{mk(1, 11), mk(2, 4)}
			}
			return []JobDef{mk(1, 11)}
		},
		Assumptions: baseAssumptions,
		Outside: []string{"arbitrary source texts (only one- and two-byte perturbations of eleven templates)", "nondeterminism that comes from Go's randomised map iteration (the engine's maps iterate in insertion order, so two compilations in one path see the same order; natively the sampled paths are compared too, but one run each)", "termination in bounded time beyond the engine's step budget"}})
}

// ---- C23 (reduced): what mfmt does, on the C03 templates ----

func init() {
	register(&CheckDef{ID: "C23", Level: "model_checking", Only: []string{"C23."},
		Jobs: func(tier string) []JobDef {
			return []JobDef{{Name: "templates-s1", Pkg: "github.com/google/mtail/internal/runtime/compiler", Dir: "internal/runtime/compiler",
				Harness: []string{"compiler/c03.go", "compiler/c23.go"}, Entry: "HarnessC23", Params: p("nsym", 1, "ntemplates", 11, "concretize-floats", 1),
				Bound: "the eleven program templates of C03 with one byte at an arbitrary position replaced by an arbitrary byte; every perturbed program the checker accepts"}}
		},
		Assumptions: baseAssumptions,
		Outside: []string{"programs other than one-byte perturbations of the eleven templates", "comments (the formatter drops them) and layout"}})
}

// ---- C19: a one-shot run of tailer + runtime ----

const mtailPkg = "github.com/google/mtail/internal/mtail"

func init() {
	register(&CheckDef{ID: "C19", Level: "model_checking", Only: []string{"C19."},
		Jobs: func(tier string) []JobDef {
			gen, err := loaderGenFor("mtail/c19.go", "mtail")
			if err != nil {
				return []JobDef{{Name: "bridge-failed: " + err.Error(), Pkg: mtailPkg, Dir: "internal/mtail", Entry: "missing"}}
			}
			maxn := 3
			if tier == "thorough" {
				maxn = 4
			}
			return []JobDef{{Name: fmt.Sprintf("oneshot-n%d", maxn), Pkg: mtailPkg, Dir: "internal/mtail",
				Harness: []string{"mtail/c19.go"}, EngineOnly: []string{"mtail/c19_engine.go"}, NativeOnly: []string{"mtail/c19_native.go"}, Entry: "HarnessC19OneShot", Params: p("maxn", maxn), GenFiles: gen,
				Bound: fmt.Sprintf("two programs (a counter of all lines, a counter of lines per file name) and 1..2 log files of 0..%d arbitrary bytes each in the model directory; runtime.New then tailer.New in one-shot mode on one unbuffered channel and one WaitGroup, as mtail.New wires them; wait for the WaitGroup", maxn)}}
		},
		Assumptions: append([]string{
			"the wiring is the harness's copy of mtail.New's (runtime.New, then tailer.New with OneShot and the log pattern, sharing one unbuffered lines channel and one WaitGroup; Run = wg.Wait); the exporter, the HTTP server and the Prometheus registry are not started",
			"file system model, compiler answers (bridge) and scheduler as in C16/C26/C18: one deterministic schedule of the tailer, stream, dispatcher and VM goroutines",
		}, baseAssumptions...),
		Outside: []string{"schedules other than the engine's", "more than two files, longer contents, programs with patterns", "the exporter's final metric dump and the process exit path in main"}})
}

func loaderC26Jobs(tier string) []JobDef {
	return checks["C26"].Jobs(tier)
}

func readHarness(rel string) (string, error) {
	b, err := os.ReadFile(filepath.Join(verifRoot, "harness", rel))
	return string(b), err
}

// ---- C16: the file stream over the model file system ----

func init() {
	register(&CheckDef{ID: "C16", Level: "model_checking", Only: []string{"C16."},
		Jobs: func(tier string) []JobDef {
			steps := 3
			if tier == "thorough" {
				steps = 4
			}
			return []JobDef{{Name: fmt.Sprintf("history-%d", steps), Pkg: logstreamPkg, Dir: "internal/tailer/logstream",
				Harness: []string{"logstream/c16.go"}, EngineOnly: []string{"logstream/c16_engine.go"}, NativeOnly: []string{"logstream/c16_native.go"},
				Entry: "HarnessC16History", Params: p("steps", steps),
				Bound: fmt.Sprintf("file present before tailing (empty or holding one earlier line); every history of %d steps over {append line, append fragment of 1 or 2 bytes, append CRLF line, truncate, rename+create, copy+truncate, delete, re-create, poll} with arbitrary payload bytes, each step observed by the stream before the next; then tailing stops", steps)}}
		},
		Assumptions: append([]string{
			"the file system is a model with inodes, open descriptors that keep their inode, Seek, Stat/SameFile/IsNotExist (natively: a real temporary directory)",
			"the stream goroutines run under the engine's deterministic scheduler; the harness waker reports when the stream goes idle, which is the property's 'has observed each step' premise, so no claim is made for edits that race with a read",
			"re-creation after a deletion is followed by the tailer opening a new stream for the path (done by the harness as tail.go does, not seeking past data since the file is new and empty)",
		}, baseAssumptions...),
		Outside: []string{"histories longer than the bound; payloads longer than one byte per append (framing of longer data is C15)", "several edits between two polls", "read errors, ESTALE", "pipes, sockets (C17), glob polling (C18)"}})
}

// ---- C17 (named pipes): the fifo stream over a model pipe ----

func init() {
	register(&CheckDef{ID: "C17", Level: "model_checking", Only: []string{"C17."},
		Jobs: func(tier string) []JobDef {
			steps := 3
			if tier == "thorough" {
				steps = 4
			}
			return []JobDef{{Name: fmt.Sprintf("fifo-%d", steps), Pkg: logstreamPkg, Dir: "internal/tailer/logstream",
				Harness: []string{"logstream/c15.go", "logstream/c16.go", "logstream/c17.go"}, EngineOnly: []string{"logstream/c16_engine.go"}, NativeOnly: []string{"logstream/c16_native.go"},
				Entry: "HarnessC17Fifo", Params: p("steps", steps),
				Bound: fmt.Sprintf("a named pipe with or without a writer when the stream opens it; every history of %d steps over {open the writing end, write 1..2 arbitrary bytes, close the writing end, poll}, the stream settled after each; then the writer's close or a cancellation ends the stream", steps)},
				{Name: fmt.Sprintf("socket-%d", steps), Pkg: logstreamPkg, Dir: "internal/tailer/logstream",
					Harness: []string{"logstream/c15.go", "logstream/c16.go", "logstream/c17.go"}, EngineOnly: []string{"logstream/c16_engine.go"}, NativeOnly: []string{"logstream/c16_native.go"},
					Entry: "HarnessC17Socket", Params: p("steps", steps),
					Bound: fmt.Sprintf("a listening unix stream socket and up to two connections; every history of %d steps over {connect, write 1..2 arbitrary bytes, close, poll} on either connection, the stream settled after each; then cancellation", steps)},
				{Name: fmt.Sprintf("dgram-%d", steps), Pkg: logstreamPkg, Dir: "internal/tailer/logstream",
					Harness: []string{"logstream/c15.go", "logstream/c16.go", "logstream/c17.go"}, EngineOnly: []string{"logstream/c16_engine.go"}, NativeOnly: []string{"logstream/c16_native.go"},
					Entry: "HarnessC17Dgram", Params: p("steps", steps),
					Bound: fmt.Sprintf("a unix datagram socket with one sender; every history of %d steps over {send a datagram of 0..2 arbitrary bytes, poll}, the stream settled after each; then cancellation", steps)}}
		},
		Assumptions: append([]string{
			"the pipe is a model (a byte queue and a count of open writing ends): a read returns a chunk of the queued bytes of the solver's choosing (1, 2 or all of them), end of file when no writing end is open, an i/o timeout once SetReadDeadline was called, and waits otherwise - pipe(7) and Go's poller for a descriptor opened O_NONBLOCK; natively a real fifo made with mkfifo(2) in a temporary directory",
			"a stream socket is a model: a listener with a queue of pending connections; a connection is a byte queue with reads as for the pipe, end of file after the peer closed, 'use of closed network connection' after Close; a datagram socket is a queue of datagrams, one per read; natively real unix sockets in a temporary directory",
			"the stream goroutines run under the engine's deterministic scheduler (a read is a yield point) and are settled after each step",
		}, baseAssumptions...),
		Outside: []string{"standard input; TCP and UDP (the unix variants are run; the stream code is the same, the address family is not modelled); two datagram senders", "several writers on one pipe, more than two connections; histories longer than the bound", "bytes written while the stream is being cancelled"}})
}

// ---- C11: data races between pairs of operations ----

var c11Ops = []string{
	"GetDatum(existing)", "GetDatum(new)", "RemoveDatum", "ExpireDatum", "update value",
	"Store.Gc", "Store.Add(re-declared)", "Collect (prometheus)", "HandleVarz", "HandleGraphite", "push (graphite)",
	"FindMetricOrNil", "update value of the other label set",
}

func init() {
	register(&CheckDef{ID: "C11", Level: "model_checking", Only: []string{"C11."},
		Jobs: func(tier string) []JobDef {
			var jobs []JobDef
			for a := range c11Ops {
				for b := a; b < len(c11Ops); b++ {
					j := exporterJob("HarnessC11Pair", 1, 0, fmt.Sprintf("operations %q and %q on a store holding one metric (each value type) with two label sets; both orders of execution recorded; every pair of conflicting accesses to the shared state decided by a schedule query", c11Ops[a], c11Ops[b]))
					j.Name = fmt.Sprintf("pair-%d-%d", a, b)
					j.Harness = []string{"exporter/c12.go", "exporter/c11.go"}
					j.EngineOnly = append(append([]string{}, j.EngineOnly...), "exporter/c11_engine.go")
					j.NativeOnly = append(append([]string{}, j.NativeOnly...), "exporter/c11_native.go")
					j.Params = p("a", a, "b", b, "nofault", 1)
					j.Race = true
					jobs = append(jobs, j)
				}
			}
			return jobs
		},
		Assumptions: append([]string{
			"two operations at a time; each is executed sequentially by the engine (both orders) while every load, store, map access and atomic access to the cells of the shared pre-state is recorded with the locks held; goroutines an operation starts work under the locks their parent held at the start for as long as the parent holds them (Collect waits for EmitLabelSets)",
			"a race is a pair of accesses to one cell, one from each operation, at least one a write, not both atomic, for which the solver finds a schedule of both operations' lock and access events with the two accesses adjacent; only mutual exclusion orders events of different operations",
			"cells created during an operation are not tracked (publication of new objects happens under the metric's write lock)",
			"native confirmation: the two operations run concurrently in a test binary built with -race",
		}, baseAssumptions...),
		Outside: []string{"more than two concurrent operations", "lost updates and stale multi-word reads that are not data races", "JSON export (encoding/json reflection is not executed symbolically)", "program reload at the runtime level (handles map), the tailer", "a store with more metrics or label sets"}})
}
