package main

import (
	"bufio"
	"fmt"
	"io"
	"os"
	"os/exec"
	"strings"
	"time"
)

// Solver is a persistent SMT solver process speaking SMT-LIB2 on a pipe.
type Solver struct {
	bin     string
	cmd     *exec.Cmd
	in      *bufio.Writer
	inc     io.WriteCloser
	out     *bufio.Reader
	Queries int
	Sat     int
	Unsat   int
	Unknown int
	Errors  int
	Time    time.Duration
	MaxQ    time.Duration
	log     io.Writer
	lastErr string
}

func NewSolver(timeoutMs int, bin string, args ...string) *Solver {
	cmd := exec.Command(bin, args...)
	in, _ := cmd.StdinPipe()
	out, _ := cmd.StdoutPipe()
	cmd.Stderr = cmd.Stdout
	if err := cmd.Start(); err != nil {
		panic(err)
	}
	s := &Solver{bin: bin, cmd: cmd, inc: in, in: bufio.NewWriterSize(in, 1<<16), out: bufio.NewReaderSize(out, 1<<16)}
	s.Send("(set-option :print-success false)")
	if strings.Contains(bin, "cvc5") {
		s.Send("(set-logic ALL)")
	}
	if strings.Contains(bin, "z3") {
		s.Send(fmt.Sprintf("(set-option :timeout %d)", timeoutMs))
	}
	return s
}

func (s *Solver) Send(line string) {
	if s.log != nil {
		fmt.Fprintln(s.log, line)
	}
	s.in.WriteString(line)
	s.in.WriteByte('\n')
}

func (s *Solver) readLine() string {
	s.in.Flush()
	l, err := s.out.ReadString('\n')
	if err != nil {
		panic("solver died: " + err.Error())
	}
	return strings.TrimSpace(l)
}

// Check returns "sat", "unsat" or "unknown"; any (error line is unknown.
func (s *Solver) Check() string {
	t0 := time.Now()
	s.Send("(check-sat)")
	r := s.readLine()
	sawErr := false
	for strings.HasPrefix(r, "(error") {
		// an earlier command was rejected: the answer that follows cannot
		// be trusted (the solver dropped an assertion).
		sawErr = true
		s.Errors++
		s.lastErr = r
		r = s.readLine()
	}
	d := time.Since(t0)
	s.Time += d
	if d > s.MaxQ {
		s.MaxQ = d
	}
	s.Queries++
	if sawErr {
		s.Unknown++
		return "unknown"
	}
	switch r {
	case "sat":
		s.Sat++
	case "unsat":
		s.Unsat++
	default:
		s.Unknown++
		r = "unknown"
	}
	return r
}

// GetValue returns the printed value of term t (after a sat).
func (s *Solver) GetValue(t string) string {
	s.Send("(get-value (" + t + "))")
	depth := 0
	var b strings.Builder
	for {
		l := s.readLine()
		b.WriteString(l)
		b.WriteByte(' ')
		depth += parenDepth(l)
		if depth <= 0 {
			break
		}
	}
	r := strings.TrimSpace(b.String())
	if strings.HasPrefix(r, "(error") {
		s.Errors++
		s.lastErr = r
		if os.Getenv("VERIF_DEBUG") != "" {
			fmt.Println("DEBUG get-value", t, "->", r)
		}
		return ""
	}
	// ((t v)) -> v: skip the first s-expression (the term as the solver
	// prints it, which need not be the text that was sent), keep the second
	r = strings.TrimSpace(r)
	r = strings.TrimSuffix(strings.TrimPrefix(r, "(("), "))")
	depth, inBar, i := 0, false, 0
	for i = 0; i < len(r); i++ {
		c := r[i]
		if c == '|' {
			inBar = !inBar
			continue
		}
		if inBar {
			continue
		}
		if c == '(' {
			depth++
		} else if c == ')' {
			depth--
		} else if (c == ' ' || c == '\n' || c == '\t') && depth == 0 {
			break
		}
	}
	return strings.TrimSpace(r[i:])
}

func parenDepth(l string) int {
	d := 0
	inBar := false
	for i := 0; i < len(l); i++ {
		switch l[i] {
		case '|':
			inBar = !inBar
		case '(':
			if !inBar {
				d++
			}
		case ')':
			if !inBar {
				d--
			}
		}
	}
	return d
}

func (s *Solver) Close() {
	s.in.Flush()
	s.inc.Close()
	s.cmd.Wait()
}
